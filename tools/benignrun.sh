#!/bin/bash
# apply a semantics-preserving refactoring to /repo, run checks, undo: every check must exit 0.
patch=$1; shift
cd /verif
rm -rf build/evidence.keep; cp -r evidence build/evidence.keep
git -C /repo diff --quiet || { echo "/repo has uncommitted changes"; exit 2; }
git -C /repo apply $(realpath $patch) || { echo APPLY-FAILED; exit 2; }
for p in "$@"; do
  ./check $p > build/benign_$p.out 2>&1; rc=$?
  echo "== $(basename $patch) vs $p: rc=$rc"; grep -E "^VIOLATION|^  failed obligation|^UNDECIDED|^OK|^KNOWN" build/benign_$p.out | cut -c1-240 | head -6
done
git -C /repo checkout -- .
rm -rf evidence; cp -r build/evidence.keep evidence   # evidence of a patched tree is never kept
