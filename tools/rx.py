#!/usr/bin/env python3
"""rx.py -- mechanical extractor: real functions of /repo -> one Verus file.

A unit template (specs/units/*.rs.in) is a Verus source file with holes.  A hole is a
directive line starting with `//@`.  The extractor copies the *signature and body* of the
addressed function byte-for-byte from /repo's working tree and splices the contract text that
follows the directive between them.  The complete list of textual changes made to copied code
is the E-rules of DESIGN.md section 3.2; every rule that fires is recorded per function.

Directives
  //@fn <file> :: <container> :: <name>      start of a function hole. <container> is the
                                             whitespace-insensitive header of the trait/impl
                                             block, or `-` for a free function.
      //@tags C01 C04 ...                    properties the function's obligations belong to
      //@attr <text>                         attribute line(s) emitted before the signature
      //@rename <old> <new>                  rename a parameter (E5 for `_`, `_name`)
      //@loop <n>                            following lines (until next //@) are inserted
                                             before the `{` of the n-th loop of the body
      //@hint <regex>                        following lines are inserted before the unique
                                             body line matching <regex>
      //@sub <regex> => <text>               registered textual substitution (E-rule, listed)
      <contract lines>                       requires / ensures / decreases ...
  //@body                                    emit the verbatim body here
  //@extern                                  emit `{ unimplemented!() }` + external_body (E8)
  //@decl                                    emit `;` (trait method declaration)
  //@struct <file> :: <Name>                 struct/enum definition, fields made pub (E2)
  //@item <file> :: <container> :: <name>    any other item verbatim (const, type)
  //@include <path relative to specs/>       raw include of spec text

Exit: 0 ok; 2 lost anchor / unsupported (never an alarm).
"""
import hashlib
import json
import os
import re
import sys


class Lost(Exception):
    pass


# --------------------------------------------------------------------------- lexer
def scan_code(src, start=0, end=None):
    """Yield (pos, ch) for every character of src[start:end] that is code, i.e. outside
    comments, string/char literals.  Literal bodies are skipped as a unit."""
    i = start
    n = len(src) if end is None else end
    while i < n:
        c = src[i]
        two = src[i:i + 2]
        if two == '//':
            j = src.find('\n', i)
            i = n if j < 0 else j
            continue
        if two == '/*':
            depth = 1
            i += 2
            while i < n and depth:
                if src[i:i + 2] == '/*':
                    depth += 1
                    i += 2
                elif src[i:i + 2] == '*/':
                    depth -= 1
                    i += 2
                else:
                    i += 1
            continue
        if c == '"' or (c in 'br' and re.match(r'(b?r#*"|b")', src[i:i + 8]) and not (i > 0 and (src[i - 1].isalnum() or src[i - 1] == '_'))):
            m = re.match(r'b?r(#*)"', src[i:i + 40])
            if m:
                close = '"' + m.group(1)
                j = src.find(close, i + len(m.group(0)))
                if j < 0:
                    raise Lost('unterminated raw string')
                yield (i, '"')
                i = j + len(close)
                continue
            # ordinary (byte) string
            j = i + (2 if c == 'b' else 1)
            while j < n and src[j] != '"':
                j += 2 if src[j] == '\\' else 1
            yield (i, '"')
            i = j + 1
            continue
        if c == "'":
            # char literal or lifetime
            m = re.match(r"'(\\.[^']*|[^\\'])'", src[i:i + 12])
            if m:
                yield (i, '"')
                i += len(m.group(0))
                continue
            # lifetime: skip the quote, identifier follows as code
            i += 1
            continue
        yield (i, c)
        i += 1


def match_close(src, open_pos):
    """Position of the bracket matching src[open_pos] (one of ( [ { )."""
    pairs = {'(': ')', '[': ']', '{': '}'}
    o = src[open_pos]
    cl = pairs[o]
    depth = 0
    for pos, ch in scan_code(src, open_pos):
        if ch == o:
            depth += 1
        elif ch == cl:
            depth -= 1
            if depth == 0:
                return pos
    raise Lost('unbalanced bracket at %d' % open_pos)


SEMI_ITEMS = ('const', 'static', 'use', 'type', 'let', 'extern')


def split_items(src, start, end):
    """Split src[start:end] (the inside of a file / block) into items.
    Returns list of dicts: start, end (exclusive), header_end (pos of first top-level `{` or
    the terminating `;`), kind, name."""
    items = []
    i = start
    gen = scan_code(src, start, end)
    cur_start = None
    depth_p = depth_b = depth_c = 0
    first_brace = None
    for pos, ch in gen:
        if cur_start is None:
            if ch.isspace():
                continue
            cur_start = pos
            first_brace = None
        if ch == '(':
            depth_p += 1
        elif ch == ')':
            depth_p -= 1
        elif ch == '[':
            depth_b += 1
        elif ch == ']':
            depth_b -= 1
        elif ch == '{':
            if depth_c == 0 and depth_p == 0 and depth_b == 0 and first_brace is None:
                first_brace = pos
            depth_c += 1
        elif ch == '}':
            depth_c -= 1
            if depth_c == 0 and depth_p == 0 and depth_b == 0:
                kw = item_keyword(src[cur_start:pos])
                if kw in SEMI_ITEMS:
                    continue
                items.append(dict(start=cur_start, end=pos + 1, header_end=first_brace))
                cur_start = None
        elif ch == ';' and depth_c == 0 and depth_p == 0 and depth_b == 0:
            items.append(dict(start=cur_start, end=pos + 1, header_end=pos if first_brace is None else first_brace))
            cur_start = None
    for it in items:
        # leading doc comments are not code, so cur_start already skipped them; include
        # attributes (they are code and start the item)
        text = src[it['start']:it['header_end']]
        it['kind'], it['name'] = classify(text)
        it['header'] = text
    return items


ATTR_RE = re.compile(r'\s*#!?\[')


def strip_attrs(text):
    """Remove leading attributes (#[...]) and doc comments from item text; return rest."""
    i = 0
    while True:
        m = re.match(r'\s*(//[^\n]*\n)', text[i:])
        if m:
            i += m.end()
            continue
        m = ATTR_RE.match(text[i:])
        if m:
            ob = i + m.end() - 1
            cb = match_close(text, ob)
            i = cb + 1
            continue
        break
    return text[i:].lstrip()


def item_keyword(text):
    t = strip_attrs(text)
    t = re.sub(r'^pub(\s*\([^)]*\))?\s+', '', t)
    t = re.sub(r'^(default|unsafe|async|const\s+(?=fn))\s+', '', t)
    m = re.match(r'([A-Za-z_][A-Za-z0-9_]*)', t)
    return m.group(1) if m else ''


def classify(header):
    t = strip_attrs(header)
    t = re.sub(r'^pub(\s*\([^)]*\))?\s+', '', t)
    t = re.sub(r'^(unsafe\s+|async\s+|const\s+(?=fn)|extern\s+"[^"]*"\s+(?=fn))*', '', t)
    m = re.match(r'(fn|struct|enum|trait|mod|union|const|static|type)\s+([A-Za-z_][A-Za-z0-9_]*)', t)
    if m:
        return m.group(1), m.group(2)
    if re.match(r'impl\b', t):
        return 'impl', norm(t)
    m = re.match(r'([A-Za-z_][A-Za-z0-9_:]*)\s*!', t)
    if m:
        return 'macro', m.group(1)
    return 'other', ''


def norm(s):
    return re.sub(r'\s+', '', s)


# --------------------------------------------------------------------------- source index
class Source:
    def __init__(self, repo):
        self.repo = repo
        self.files = {}
        self.index = {}
        self.allfns = {}
        self.addressed = set()

    def load(self, rel):
        if rel in self.files:
            return self.files[rel]
        p = os.path.join(self.repo, rel)
        if not os.path.exists(p):
            raise Lost('source file missing: %s' % rel)
        src = open(p, encoding='utf-8').read()
        self.files[rel] = src
        top = split_items(src, 0, len(src))
        idx = {}
        allf = []
        for it in top:
            if it['kind'] in ('impl', 'trait'):
                cname = it['name'] if it['kind'] == 'impl' else norm('trait ' + it['name'])
                ob = it['header_end']
                cb = match_close(src, ob)
                inner = split_items(src, ob + 1, cb)
                inherent = it['kind'] == 'impl' and not re.search(r'\bfor\b', re.sub(r'<[^<>]*>', '', re.sub(r'<[^<>]*>', '', it['header'])))
                for sub in inner:
                    idx.setdefault((cname, sub['name']), []).append(sub)
                    if sub['kind'] == 'fn':
                        allf.append(dict(rel=rel, cont=cname, name=sub['name'], item=sub, inherent=inherent, free=False))
                idx.setdefault(('-', cname), []).append(it)
            else:
                idx.setdefault(('-', it['name']), []).append(it)
                if it['kind'] == 'fn':
                    allf.append(dict(rel=rel, cont='-', name=it['name'], item=it, inherent=False, free=True))
            if it['kind'] == 'mod' and it['header_end'] is not None and src[it['header_end']] == '{' and it['name'] == 'tests':
                pass
        self.index[rel] = idx
        self.allfns[rel] = allf
        return src

    def find(self, rel, container, name):
        src = self.load(rel)
        key = ('-' if container.strip() == '-' else norm(container), name)
        hits = self.index[rel].get(key, [])
        if len(hits) != 1:
            raise Lost('anchor %s :: %s :: %s matched %d items' % (rel, container, name, len(hits)))
        self.addressed.add((rel, key[0], name))
        return src, hits[0]

    def helpers(self):
        """E14 candidates: functions of the loaded source files that no template hole addresses,
        that are inherent methods or free functions, unique by name, and whose body is a single
        expression without `?`/return/loops/closures.  name -> (params, has_self, body_expr)"""
        cand = {}
        for rel, fns in self.allfns.items():
            src = self.files[rel]
            for f in fns:
                if (f['rel'], f['cont'], f['name']) in self.addressed:
                    cand.setdefault(f['name'], []).append(None)
                    continue
                if not (f['inherent'] or f['free']):
                    continue
                it = f['item']
                he = it['header_end']
                if he is None or src[he] != '{':
                    continue
                body = src[he + 1:it['end'] - 1]
                code = ''.join(ch for _, ch in scan_code(body))
                if ';' in code or '?' in code or re.search(r'\b(return|loop|while|for|unsafe|let|match)\b', code) or '|' in code:
                    continue
                sig = strip_attrs(src[it['start']:he])
                m = re.search(r'\bfn\s+\w+\s*(<[^>]*>)?\s*\(', sig)
                if not m or m.group(1):
                    continue
                ob = m.end() - 1
                cb = match_close(sig, ob)
                params = [x.strip() for x in sig[ob + 1:cb].split(',') if x.strip()]
                has_self = False
                names = []
                ok = True
                for pi, prm in enumerate(params):
                    if pi == 0 and prm in ('&self', 'self'):
                        has_self = True
                        continue
                    mm = re.match(r'^([a-z_][A-Za-z0-9_]*)\s*:', prm)
                    if not mm or 'mut' in prm.split(':')[0]:
                        ok = False
                        break
                    names.append(mm.group(1))
                if not ok or '->' not in sig[cb:]:
                    continue
                cand.setdefault(f['name'], []).append(dict(params=names, has_self=has_self, body=body.strip(), where='%s::%s::%s' % (rel, f['cont'], f['name'])))
        return {k: v[0] for k, v in cand.items() if len(v) == 1 and v[0] is not None}

    def sha(self):
        return {rel: hashlib.sha256(s.encode()).hexdigest() for rel, s in sorted(self.files.items())}


def line_of(src, pos):
    return src.count('\n', 0, pos) + 1


# --------------------------------------------------------------------------- splice
LOOP_RE = re.compile(r'\b(for|while|loop)\b')


def find_loops(body):
    """positions of the `{` opening each loop body in `body`, in source order."""
    res = []
    code = list(scan_code(body))
    text_positions = [p for p, _ in code]
    codeset = set(text_positions)
    for m in LOOP_RE.finditer(body):
        if m.start() not in codeset:
            continue
        # first `{` after the keyword at bracket depth 0 (relative), skipping closures is not
        # needed for the code base's loops; struct literals do not occur in loop headers
        dp = db = 0
        for pos, ch in scan_code(body, m.end()):
            if ch == '(':
                dp += 1
            elif ch == ')':
                dp -= 1
            elif ch == '[':
                db += 1
            elif ch == ']':
                db -= 1
            elif ch == '{' and dp == 0 and db == 0:
                res.append(pos)
                break
    return res


def name_return(sig):
    """E3: `-> T` becomes `-> (r: T)`.  sig ends before the body `{` or `;`.
    A trailing where-clause is kept after the return type."""
    # find top-level `->` (not inside parens: closures types `impl FnOnce(..) -> X` are
    # inside the parameter list parentheses)
    dp = 0
    arrow = None
    for pos, ch in scan_code(sig):
        if ch in '([':
            dp += 1
        elif ch in ')]':
            dp -= 1
        elif ch == '-' and sig[pos:pos + 2] == '->' and dp == 0:
            arrow = pos
    if arrow is None:
        return sig, False
    rest = sig[arrow + 2:]
    m = re.search(r'\bwhere\b', rest)
    if m:
        ty, tail = rest[:m.start()], ' ' + rest[m.start():]
    else:
        ty, tail = rest, ''
    return sig[:arrow] + '-> (r: ' + ty.strip() + ')' + tail.rstrip(), True


def widen_vis(text):
    return re.sub(r'^pub\s*\([^)]*\)\s+', 'pub ', text)


def split_args(text):
    args, depth, cur = [], 0, ''
    for ch in text:
        if ch in '([{':
            depth += 1
        elif ch in ')]}':
            depth -= 1
        if ch == ',' and depth == 0:
            args.append(cur.strip())
            cur = ''
        else:
            cur += ch
    if cur.strip():
        args.append(cur.strip())
    return args


def inline_helpers(body, helpers, rules, self_ok=True):
    """E14: replace calls of simple unaddressed helpers by their body expression (receiver and
    arguments substituted textually, everything parenthesised).  Returns new body."""
    for _round in range(4):
        changed = False
        code_pos = set(p for p, _ in scan_code(body))
        for name, h in helpers.items():
            for m in re.finditer(r'(?<![A-Za-z0-9_])%s\s*\(' % re.escape(name), body):
                if m.start() not in code_pos:
                    continue
                ob = m.end() - 1
                try:
                    cb = match_close(body, ob)
                except Lost:
                    continue
                args = split_args(body[ob + 1:cb])
                start = m.start()
                recv = None
                if h['has_self']:
                    if start == 0 or body[start - 1] != '.':
                        continue
                    # walk back over the receiver: a postfix chain of identifiers, fields, calls, indexing
                    i = start - 2
                    depth = 0
                    while i >= 0:
                        ch = body[i]
                        if ch in ')]':
                            depth += 1
                        elif ch in '([':
                            if depth == 0:
                                break
                            depth -= 1
                        elif depth == 0 and not (ch.isalnum() or ch in '_.'):
                            break
                        i -= 1
                    recv = body[i + 1:start - 1]
                    if not recv.strip():
                        continue
                    start = i + 1
                else:
                    if start > 0 and body[start - 1] in '.:':
                        # Type::name(..) path call: drop the path
                        mm = re.search(r'([A-Za-z_][A-Za-z0-9_]*(::<[^>]*>)?::)+$', body[:start])
                        if body[start - 1] == '.' or not mm:
                            continue
                        start = mm.start()
                if len(args) != len(h['params']):
                    continue
                expr = h['body']
                for pn, av in zip(h['params'], args):
                    expr = re.sub(r'(?<![A-Za-z0-9_.])%s(?![A-Za-z0-9_])' % re.escape(pn), '(' + av.replace('\\', '\\\\') + ')', expr)
                if recv is not None:
                    expr = re.sub(r'(?<![A-Za-z0-9_])self(?![A-Za-z0-9_])', recv.replace('\\', '\\\\'), expr)
                body = body[:start] + '(' + expr + ')' + body[cb + 1:]
                rules.append('E14-inline:' + h['where'])
                changed = True
                break
            if changed:
                break
        if not changed:
            break
    return body


def desugar_loop(b, spec, hdr):
    if spec[0] == 'enum':
        _, iv, xv, coll, ety = spec
        m = re.search(r'for \(%s, %s\) in %s\.iter\(\)\.enumerate\(\) \{' % (re.escape(iv), re.escape(xv), re.escape(coll)), b)
        head = 'let mut %s: usize = 0; while %s < %s.len() { let %s: &%s = &%s[%s];' % (iv, iv, coll, xv, ety, coll, iv)
        inc = '%s += 1;' % iv
    elif spec[0] == 'range':
        # the comparison follows the range operator of the source (`..=` inclusive, `..` exclusive)
        _, cv, hi = spec
        m = re.search(r'for _ in 0\.\.(=?)%s \{' % re.escape(hi), b)
        head = 'let mut %s: usize = 0; while %s %s %s as usize {' % (cv, cv, '<=' if m and m.group(1) else '<', hi)
        inc = '%s += 1;' % cv
    elif spec[0] == 'mapcollect':
        # E15: `(LO..=HI).map(|_| EXPR).collect()` (or `LO..HI`) building a Vec -> a block with a
        # counter loop over usize pushing EXPR; bounds, operator and EXPR are taken from the source
        _, vv, iv, ety = spec
        m = re.search(r'\(([^()]*?)\.\.(=?)([^()]*?)\)\s*\.map\(\|_\|', b)
        if not m:
            raise Lost('E15 (range).map(|_| ..).collect() not found in %s' % hdr)
        op = b.index('(', m.end() - len('(|_|'))
        cp = match_close(b, op)
        expr = b[m.end():cp].strip()
        tail = re.match(r'\s*\.collect\(\)', b[cp + 1:])
        if not tail:
            raise Lost('E15 .collect() not found after .map(..) in %s' % hdr)
        block = ('{ let mut %(v)s: Vec<%(t)s> = Vec::new(); let mut %(i)s: usize = (%(lo)s) as usize; while %(i)s %(cmp)s (%(hi)s) as usize { %(v)s.push(%(e)s); %(i)s += 1; } %(v)s }'
                 % dict(v=vv, i=iv, lo=m.group(1).strip(), hi=m.group(3).strip(), cmp='<=' if m.group(2) else '<', e=expr, t=ety))
        return b[:m.start()] + block + b[cp + 1 + tail.end():]
    else:
        _, cv, xv, coll = spec
        m = re.search(r'for %s in &?%s \{' % (re.escape(xv), re.escape(coll)), b)
        head = 'let mut %s: usize = 0; while %s < %s.len() { let %s = &%s[%s];' % (cv, cv, coll, xv, coll, cv)
        inc = '%s += 1;' % cv
    if not m:
        raise Lost('E10 loop %s not found in %s' % (spec, hdr))
    ob = m.end() - 1
    cb = match_close(b, ob)
    # increment on its own line right before the closing brace of the loop
    ls = b.rfind('\n', 0, cb) + 1
    indent = b[ls:cb]
    b = b[:ls] + indent + '    ' + inc + '\n' + b[ls:]
    b = b[:m.start()] + head + b[m.end():]
    return b


class Emitter:
    def __init__(self, source, specs_dir):
        self.source = source
        self.specs_dir = specs_dir
        self.out = []
        self.functions = []  # metadata
        self.cur_tags = []
        self.macros = {}
        self.inline = False
        self._helpers = None
        self.disabled_hints = {}

    def helpers_now(self):
        if self._helpers is None:
            self._helpers = self.source.helpers()
        return self._helpers

    def expand(self, line):
        """expand @NAME(args) textual macros (template-side only, never applied to repo text)"""
        for _ in range(8):
            m = re.search(r'@([A-Z][A-Z0-9_]*)\(', line)
            if not m or m.group(1) not in self.macros:
                return line
            ob = m.end() - 1
            cb = match_close(line, ob)
            args, depth, cur = [], 0, ''
            for ch in line[ob + 1:cb]:
                if ch in '([{':
                    depth += 1
                elif ch in ')]}':
                    depth -= 1
                if ch == ',' and depth == 0:
                    args.append(cur.strip())
                    cur = ''
                else:
                    cur += ch
            if cur.strip():
                args.append(cur.strip())
            params, body = self.macros[m.group(1)]
            if len(args) != len(params):
                raise Lost('macro %s arity' % m.group(1))
            for pn, a in zip(params, args):
                body = re.sub(r'\$%s\b' % pn, a.replace('\\', '\\\\'), body)
            line = line[:m.start()] + body + line[cb + 1:]
        return line

    def lineno(self):
        return sum(s.count('\n') for s in self.out) + 1

    def emit(self, text):
        self.out.append(text)

    def process(self, template_path, negate=False):
        raw = open(template_path, encoding='utf-8').read().split('\n')
        lines = []
        k = 0
        while k < len(raw):
            st = raw[k].strip()
            if st.startswith('//@def '):
                m = re.match(r'//@def ([A-Z][A-Z0-9_]*)\(([^)]*)\)', st)
                body = []
                k += 1
                while not raw[k].strip().startswith('//@enddef'):
                    body.append(raw[k])
                    k += 1
                self.macros[m.group(1)] = ([x.strip() for x in m.group(2).split(',') if x.strip()], '\n'.join(body).strip())
                k += 1
                continue
            lines.append(raw[k] if st.startswith('//@') else self.expand(raw[k]))
            k += 1
        i = 0
        while i < len(lines):
            ln = lines[i]
            s = ln.strip()
            if s.startswith('//@include '):
                inc = os.path.join(self.specs_dir, s[len('//@include '):].strip())
                self.process(inc, negate)
                i += 1
            elif s.startswith('//@struct '):
                rel, name = [x.strip() for x in re.split(r'\s+::\s+', s[len('//@struct '):])]
                subs = []
                while i + 1 < len(lines) and lines[i + 1].strip().startswith('//@sub '):
                    a, b = lines[i + 1].strip()[len('//@sub '):].split(' => ', 1)
                    subs.append((a.strip(), b))
                    i += 1
                self.emit_struct(rel, name, subs)
                i += 1
            elif s.startswith('//@item '):
                rel, cont, name = [x.strip() for x in re.split(r'\s+::\s+', s[len('//@item '):])]
                src, it = self.source.find(rel, cont, name)
                self.emit(widen_vis(strip_attrs(src[it['start']:it['end']])) + '\n')
                i += 1
            elif s.startswith('//@overrides '):
                # trait-impl methods that the template does not address (an impl that overrides a
                # default method): emitted verbatim, checked against the trait's contract
                parts = [x.strip() for x in re.split(r'\s+::\s+', s[len('//@overrides '):])]
                rel, cont = parts[0], ' :: '.join(parts[1:])
                tags = []
                if i + 1 < len(lines) and lines[i + 1].strip().startswith('//@tags'):
                    tags = lines[i + 1].strip().split()[1:]
                    i += 1
                if self.inline:  # pass 2 only: the addressed set is complete
                    self.source.load(rel)
                    for f in self.source.allfns.get(rel, []):
                        if f['cont'] == norm(cont) and (rel, f['cont'], f['name']) not in self.source.addressed:
                            fake = ['//@fn %s :: %s :: %s' % (rel, cont, f['name']), '//@tags ' + ' '.join(tags), '//@body']
                            self.process_fn(fake, 0, negate)
                            self.source.addressed.discard((rel, f['cont'], f['name']))
                            self.functions[-1]['rules'].append('OVERRIDE')
                i += 1
            elif s.startswith('//@fn '):
                i = self.process_fn(lines, i, negate)
            elif s.startswith('//@lemma'):
                # hand-written ghost item follows; record tags for the next fn item
                parts = s.split()
                self.emit('//#lemma tags=%s\n' % ','.join(parts[1:]))
                i += 1
            else:
                self.emit(ln + '\n')
                i += 1

    def emit_struct(self, rel, name, subs=()):
        src, it = self.source.find(rel, '-', name)
        text = strip_attrs(src[it['start']:it['end']])
        text = widen_vis(text)
        if not text.startswith('pub '):
            text = 'pub ' + text
        if it['header_end'] is not None and src[it['header_end']] == '{':
            ob = text.index('{')
            head, body = text[:ob + 1], text[ob + 1:]
            # E2: make every named field pub (struct) -- enum variants are left alone
            if it['kind'] == 'struct':
                out = []
                for fl in body.split('\n'):
                    m = re.match(r'^(\s*)(pub(\s*\([^)]*\))?\s+)?([A-Za-z_][A-Za-z0-9_]*\s*:)(.*)$', fl)
                    if m and not fl.strip().startswith('//'):
                        fl = '%spub %s%s' % (m.group(1), m.group(4), m.group(5))
                    out.append(fl)
                body = '\n'.join(out)
            text = head + body
        for a, rep in subs:
            text, k = re.subn(a, rep, text)
            if k == 0:
                raise Lost('substitution /%s/ lost in struct %s' % (a, name))
        self.emit('//#struct %s::%s lines=%d-%d\n' % (rel, name, line_of(src, it['start']), line_of(src, it['end'])))
        self.emit(text + '\n')

    def process_fn(self, lines, i, negate):
        hdr = lines[i].strip()[len('//@fn '):]
        parts = [x.strip() for x in re.split(r'\s+::\s+', hdr)]
        if len(parts) > 3:
            parts = [parts[0], ' :: '.join(parts[1:-1]), parts[-1]]
        if len(parts) != 3:
            raise Lost('bad //@fn directive: ' + hdr)
        rel, cont, name = parts
        i += 1
        tags, attrs, renames, loops, hints, subs, contract = [], [], [], {}, [], [], []
        sigsubs = []
        e10 = []
        mode = None
        cur = contract
        while i < len(lines):
            s = lines[i].strip()
            if s.startswith('//@tags'):
                tags += s.split()[1:]
                cur = contract
            elif s.startswith('//@attr '):
                attrs.append(s[len('//@attr '):])
            elif s.startswith('//@rename '):
                a, b = s.split()[1:3]
                renames.append((a, b))
            elif s.startswith('//@reveal '):
                hints.append(('@start', ['        proof { reveal(%s); }' % s.split()[1]]))
            elif s.startswith('//@enumloop '):
                # E10: `for (I, X) in C.iter().enumerate() {` -> counter loop; increment inserted before
                # the loop's own closing brace (found by brace matching, not by text)
                _, iv, xv, coll, ety = s.split(None, 4)
                e10.append(('enum', iv, xv, coll, ety))
            elif s.startswith('//@rangeloop '):
                # E10: `for _ in 0..=HI {` -> counter loop over usize
                _, cv, hi = s.split(None, 2)
                e10.append(('range', cv, hi))
            elif s.startswith('//@mapcollect '):
                # E15: `(LO..=HI).map(|_| EXPR).collect()` -> counter loop pushing EXPR
                _, vv, iv, ety = s.split(None, 3)
                e10.append(('mapcollect', vv, iv, ety))
            elif s.startswith('//@foreach '):
                # E10: `for X in &C {` -> counter loop
                _, cv, xv, coll = s.split(None, 3)
                e10.append(('each', cv, xv, coll))
            elif s.startswith('//@sigsub '):
                a, b = s[len('//@sigsub '):].split(' => ', 1)
                sigsubs.append((a.strip(), b))
            elif s.startswith('//@sub '):
                a, b = s[len('//@sub '):].split(' => ', 1)
                subs.append((a.strip(), b))
            elif s.startswith('//@loop '):
                n = int(s.split()[1])
                cur = loops.setdefault(n, [])
            elif s.startswith('//@hint '):
                cur = []
                hints.append((s[len('//@hint '):].strip(), cur))
            elif s.startswith('//@contract'):
                cur = contract
            elif s in ('//@body', '//@extern', '//@decl'):
                mode = s[3:]
                i += 1
                break
            elif s.startswith('//@'):
                raise Lost('unexpected directive inside //@fn: ' + s)
            else:
                cur.append(lines[i])
            i += 1
        if mode is None:
            raise Lost('//@fn without //@body|//@extern|//@decl: ' + hdr)
        src, it = self.source.find(rel, cont, name)
        if it['kind'] != 'fn':
            raise Lost('%s is not a fn' % hdr)
        he = it['header_end']
        sig = strip_attrs(src[it['start']:he]).rstrip()
        rules = []
        has_body = src[he] == '{'
        body = src[he:it['end']] if has_body else None
        sig = widen_vis(sig)
        for a_, rep in sigsubs:
            sig, k = re.subn(a_, rep, sig)
            if k == 0:
                raise Lost('signature substitution /%s/ lost in %s' % (a_, hdr))
            rules.append('SIGSUB:' + a_)
        sig2, named = name_return(sig)
        if named:
            rules.append('E3')
        for a, b in renames:
            pat = r'(?<![A-Za-z0-9_])%s(?=\s*:)' % re.escape(a)
            sig3, k = re.subn(pat, b, sig2, count=1)
            if k != 1:
                raise Lost('rename %s not found in signature of %s' % (a, hdr))
            sig2 = sig3
            rules.append('E5')
        fid = '%s::%s::%s' % (rel, norm(cont) if cont != '-' else '-', name)
        start_line = self.lineno()
        ctext = '\n'.join(contract).rstrip()
        if negate and mode == 'body':
            # vacuity probe: an extra clause that must NOT be provable.  Each function gets its
            # own uninterpreted proposition, so a caller cannot inherit it from a callee.
            self.nprobe = getattr(self, 'nprobe', 0) + 1
            probe = 'vac_probe(%d)' % self.nprobe
            if re.search(r'^\s*ensures\b', ctext, re.M):
                ctext = ctext.rstrip().rstrip(',') + ',\n        %s,' % probe
            else:
                ctext = ctext + '\n    ensures %s,' % probe
        self.emit('//#fn id=%s tags=%s mode=%s src=%d-%d\n' % (fid, ','.join(tags), mode, line_of(src, it['start']), line_of(src, it['end'])))
        for a in attrs:
            self.emit(a + '\n')
        if mode == 'extern':
            self.emit('#[verifier::external_body]\n')
            rules.append('E8')
        self.emit(sig2 + '\n')
        sig_end = self.lineno()
        if ctext.strip():
            self.emit(ctext + '\n')
        contract_end = self.lineno()
        if mode == 'decl':
            self.emit(';\n')
            body_hash = None
        elif mode == 'extern':
            self.emit('{ unimplemented!() }\n')
            body_hash = hashlib.sha256((body or '').encode()).hexdigest()
        else:
            if not has_body:
                raise Lost('%s has no body' % hdr)
            body_hash = hashlib.sha256(body.encode()).hexdigest()
            b = body
            # E6 assert_eq!
            b2 = re.sub(r'\bassert_eq!\(([^;]*?),\s*([^;,]*?)\);', r'if !(\1 == \2) { vpanic() }', b)
            if b2 != b:
                rules.append('E6')
                b = b2
            for spec in e10:
                b = desugar_loop(b, spec, hdr)
                rules.append('E10:' + spec[0])
            for a, rep in subs:
                b2, k = re.subn(a, rep, b)
                if k == 0:
                    raise Lost('substitution /%s/ lost in %s' % (a, hdr))
                rules.append('SUB:' + a)
                b = b2
            if self.inline:
                b = inline_helpers(b, self.helpers_now(), rules)
            inserts = []  # (pos, text)
            lost_hints = []
            fid_key = '%s::%s::%s' % (rel, norm(cont) if cont != '-' else '-', name)
            if loops:
                lp = find_loops(b)
                for n, txt in loops.items():
                    if n < 1 or n > len(lp):
                        lost_hints.append('loop %d' % n)
                        continue
                    inserts.append((lp[n - 1], '\n' + '\n'.join(txt) + '\n'))
                rules.append('E4-loop')
            for rx, txt in hints:
                if rx == '@end':
                    inserts.append((len(b) - 1, '\n'.join(txt) + '\n'))
                    rules.append('E4-hint')
                    continue
                if rx == '@start':
                    inserts.append((1, '\n' + '\n'.join(txt) + '\n'))
                    rules.append('E4-hint')
                    continue
                ms = [m for m in re.finditer(rx, b, re.M)]
                if len(ms) != 1:
                    # the function was reshaped: the hint is dropped (never guessed); a failure
                    # of this function is then UNDECIDED, not a violation (check reads lost_hints)
                    lost_hints.append(rx)
                    continue
                ls = b.rfind('\n', 0, ms[0].start()) + 1
                if rx in self.disabled_hints.get(fid_key, ()):
                    lost_hints.append(rx + ' (dropped: its text no longer compiles against the reshaped body)')
                    continue
                inserts.append((ls, '//#hint %s\n' % rx + '\n'.join(txt) + '\n//#endhint\n'))
                rules.append('E4-hint')
            for pos, txt in sorted(inserts, reverse=True):
                b = b[:pos] + txt + b[pos:]
            self.emit(b + '\n')
        end_line = self.lineno() - 1
        self.functions.append(dict(id=fid, tags=tags, mode=mode, out_lines=[start_line, end_line],
                                   sig_end=sig_end, contract_lines=[sig_end, contract_end - 1],
                                   src_file=rel, src_lines=[line_of(src, it['start']), line_of(src, it['end'])],
                                   rules=rules, body_sha256=body_hash, lost_hints=(lost_hints if mode == 'body' else []),
                                   contract=[l.strip() for l in contract if l.strip()]))
        return i


def index_lemmas(text):
    """Find hand-written fn items preceded by `//#lemma tags=` markers; returns metadata with
    line ranges, computed by scanning the generated file."""
    res = []
    for m in re.finditer(r'^//#lemma tags=(.*)$', text, re.M):
        tags = [t for t in m.group(1).split(',') if t]
        after = m.end() + 1
        # item begins at first non-space char
        mm = re.compile(r'\S').search(text, after)
        if not mm:
            continue
        st = mm.start()
        # find first `{` at top level then its match
        dp = 0
        ob = None
        for pos, ch in scan_code(text, st):
            if ch in '([':
                dp += 1
            elif ch in ')]':
                dp -= 1
            elif ch == '{' and dp == 0:
                ob = pos
                break
            elif ch == ';' and dp == 0:
                break
        if ob is None:
            continue
        cb = match_close(text, ob)
        head = text[st:ob]
        nm = re.search(r'\bfn\s+([A-Za-z_][A-Za-z0-9_]*)', head)
        lname = nm.group(1) if nm else norm(head)[:120]
        res.append(dict(id='lemma::' + lname, tags=tags, mode='lemma',
                        out_lines=[line_of(text, st), line_of(text, cb)], rules=[], contract=[]))
    return res


def build(repo, specs_dir, template, out_path, negate=False, disabled_hints=None):
    src = Source(repo)
    em = Emitter(src, specs_dir)
    em.process(template, negate)          # pass 1: learns which functions the template addresses
    em2 = Emitter(src, specs_dir)
    em2.inline = True                     # pass 2: E14 inlining of simple unaddressed helpers
    em2.disabled_hints = disabled_hints or {}
    em2.process(template, negate)
    em = em2
    text = ''.join(em.out)
    fns = em.functions + index_lemmas(text)
    os.makedirs(os.path.dirname(out_path), exist_ok=True)
    with open(out_path, 'w', encoding='utf-8') as f:
        f.write(text)
    meta = dict(template=template, out=out_path, negate=negate, functions=fns, sources=src.sha(),
                out_sha256=hashlib.sha256(text.encode()).hexdigest())
    with open(out_path + '.meta.json', 'w') as f:
        json.dump(meta, f, indent=1)
    return meta


if __name__ == '__main__':
    import argparse
    ap = argparse.ArgumentParser()
    ap.add_argument('--repo', default='/repo')
    ap.add_argument('--specs', default=os.path.join(os.path.dirname(os.path.abspath(__file__)), '..', 'specs'))
    ap.add_argument('--negate', action='store_true')
    ap.add_argument('template')
    ap.add_argument('out')
    a = ap.parse_args()
    try:
        m = build(a.repo, a.specs, a.template, a.out, a.negate)
    except Lost as e:
        print('UNDECIDED lost-anchor: %s' % e)
        sys.exit(2)
    print('extracted %d functions -> %s' % (len(m['functions']), a.out))
