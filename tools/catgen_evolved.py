"""evolved structs (imported by catgen.py): writer validated against the generated record
layout; reader validated for totality only (emitted as an inherent fn, E9-like)"""
import re

import rx  # noqa

SER_TMPL = """impl %(X)s {
    /// string table after the fields (declaration order), chunk contents, recorded positions
    pub open spec fn t_fields(&self, t: Tbl) -> Tbl { %(tn)s }
    pub open spec fn chunks(&self, t: Tbl) -> Seq<Seq<u8>> { seq![%(chunks)s] }
    pub open spec fn positions() -> Map<Seq<char>, FieldPosition> { %(fi)s }
    pub open spec fn evos() -> Seq<Evo> { seq![%(evos)s] }
    pub open spec fn removed_names() -> Set<Seq<char>> { %(removed)s }
    /// header bytes and table after the header, per the documented step codes
    pub open spec fn header(&self, t: Tbl) -> Option<(Seq<u8>, Tbl)> {
        enc_hdr(Self::evos(), seq_lens(self.chunks(t)), Self::positions(), Self::removed_names(), self.t_fields(t), %(k)d)
    }
}

impl BinarySerializer for %(X)s {
    open spec fn ser_ok(&self, t: Tbl) -> bool { %(ok)s && self.header(t) is Some }
    /// version byte, header (one step per evolution step), chunks in generation order
    open spec fn enc(&self, t: Tbl) -> Seq<u8> {
        match self.header(t) { Some((hb, t2)) => seq![%(v)du8] + (hb + concat_chunks(self.chunks(t), %(k)d)), None => Seq::empty() }
    }
    open spec fn tbl_after(&self, t: Tbl) -> Tbl {
        match self.header(t) { Some((hb, t2)) => t2, None => t }
    }
    open spec fn vwf(&self) -> bool { %(vwf)s }

//#fn id=catalogue::%(X)s::serialize tags=C02,C03,C14,C17,C04 mode=body
#[verifier::rlimit(200)]
fn serialize<Output: BinaryOutput>(&self, context: &mut SerializationContext<Output>) -> (r: Result<()>)
%(body)s
}
"""

LEMMA_TMPL = """// C09 for records with evolution headers: the reader decodes the header BEFORE the fields, so the
// header's deduplicated names must be encoded against the string table as it was before the
// fields.  The writer builds the header at finish(), after the fields (known finding D12).
//#fn id=catalogue::%(X)s::lemma_header_table_order tags=C09 mode=lemma
pub proof fn lemma_header_table_order_%(X)s(v: &%(X)s, t: Tbl)
    requires
        v.ser_ok(t),
    ensures
        v.header(t) == enc_hdr(%(X)s::evos(), seq_lens(v.chunks(t)), %(X)s::positions(), %(X)s::removed_names(), t, %(k)d),
{
}
"""

DE_TMPL = """impl %(X)s {
//#fn id=catalogue::%(X)s::deserialize tags=C02,C05 mode=body
#[verifier::rlimit(100)]
pub fn deserialize(context: &mut DeserializationContext<'_>) -> (r: Result<Self>)
    requires
        old(context).iwf(),
    ensures
        // totality only: Ok or Err for every input, every API precondition met (the field-level
        // outcome table is verified on read_field / read_optional_field themselves)
        final(context).iwf(),
%(body)s
}
"""



DE_FULL_TMPL = """%(specs)s
impl BinaryDeserializer for %(X)s {
    type G = %(G)s;
    open spec fn gv(&self) -> %(G)s { %(gv)s }
    open spec fn dec(s: Seq<u8>, t: Tbl) -> Dec<%(G)s> { dec_%(X)s(s, t) }

//#fn id=catalogue::%(X)s::deserialize tags=C02,C03,C14,C05,C06,C07,C04 mode=body%(lost)s
#[verifier::rlimit(200)]
fn deserialize(context: &mut DeserializationContext<'_>) -> (r: Result<Self>)%(trans_ens)s
%(body)s
}
"""

RD_TMPL = """/// the fields of %(what)s read in declaration order (read_field / read_optional_field per the
/// declaration: chunk of the step that added the field, declared default, Option by type name);
/// result: values, bytes taken from chunk 0, state after
pub open spec fn rd_%(N)s(s0: RS, h: RH) -> Option<(%(G)s, nat, RS)> {
    %(chain)s
}

/// version byte 0: chunk 0 is the stream itself and no later chunk exists; k >= 1: header of
/// k + 1 steps, then the chunks.  Opaque: only the reader of this record looks inside
#[verifier::opaque]
pub open spec fn dec_%(N)s(s: Seq<u8>, t: Tbl) -> Dec<%(G)s> {
    if s.len() < 1 { Dec::Err } else if s[0] == 0 {
        match rd_%(N)s(RS { wins: Seq::new(%(k)d, |c: int| if c == 0 { s.skip(1) } else { Seq::<u8>::empty() }), idx: Seq::new(%(k)d, |c: int| -1int), t },
                      RH { sv: 0, removed: Set::empty(), mo: Map::empty() }) {
            Some((v, n, s2)) => Dec::Ok { v, n: n + 1, t: s2.t },
            None => Dec::Err,
        }
    } else {
        match adt_header(s.skip(1), t, s[0] as nat + 1) {
            Some(h) => match rd_%(N)s(RS { wins: Seq::new(%(k)d, |c: int| if c <= s[0] { s.skip(1).subrange(h.wins[c].0 as int, h.wins[c].1 as int) } else { Seq::<u8>::empty() }),
                                          idx: Seq::new(%(k)d, |c: int| -1int), t: h.t },
                                     RH { sv: s[0] as int, removed: h.removed, mo: h.made_opt }) {
                Some((v, n, s2)) => Dec::Ok { v, n: h.total + 1, t: s2.t },
                None => Dec::Err,
            },
            None => Dec::Err,
        }
    }
}
"""

SIMPLE_DEFAULT = re.compile(r'^(\d+(u8|u16|u32|u64|i8|i16|i32|i64)|None|true|false)$')


def reader_spec(N, what, declared, steps, core, strlit):
    """(G, spec text) of the field-level reader of one record (struct or enum case), or None if a
    declared default is not a literal the spec can name.  N = identifier suffix of the spec fns"""
    lf = core.lf
    defaults = {st['name']: st['default'] for st in declared if st['kind'] == 'FieldAdded'}
    os_of = {}
    for i, (kind, name) in enumerate(steps):
        if kind == 'FieldMadeOptional':
            os_of[name] = i
    for f in lf:
        dv = defaults.get(f['name'])
        if dv is not None and not SIMPLE_DEFAULT.match(dv):
            return None
    G = '(' + ', '.join('<%s as BinaryDeserializer>::G' % f['ty'] for f in lf) + (',' if len(lf) == 1 else '') + ')'

    def nest(i, st, ind):
        sp = '    ' * ind
        if i == len(lf):
            vals = ', '.join('v%d' % j for j in range(len(lf))) + (',' if len(lf) == 1 else '')
            n0 = ' + '.join('n%d' % j for j, f in enumerate(lf) if core.gen.get(f['name'], 0) == 0) or '0nat'
            return 'Some(((%s), %s, %s))' % (vals, n0, st)
        f = lf[i]
        c = core.gen.get(f['name'], 0)
        dv = defaults.get(f['name'])
        if f['opt'] is not None:
            dd = 'None' if dv is None else 'Some(gv_of::<Option<%s>>(%s))' % (f['opt'], dv)
            call = 'rof_step::<%s>(%s, h, %s, %dint, %dint, %s)' % (f['opt'], st, strlit(f['name']), c, os_of.get(f['name'], 0), dd)
        else:
            dd = 'None' if dv is None else 'Some(gv_of::<%s>(%s))' % (f['ty'], dv)
            call = 'rf_step::<%s>(%s, h, %s, %dint, %s)' % (f['ty'], st, strlit(f['name']), c, dd)
        return ('match %s {\n' % call + sp + '    Some((v%d, n%d, s%d)) => ' % (i, i, i + 1) + nest(i + 1, 's%d' % (i + 1), ind + 1) + ',\n'
                + sp + '    None => None,\n' + sp + '}')
    return G, RD_TMPL % dict(N=N, what=what, G=G, chain=nest(0, 's0', 1), k=core.k)


def annotate_reader(db, what, k):
    """after each statement creating `deserializer` (new_v0 / new) in the block `db`: its abstract
    state is the initial one of dec_<N>"""
    m0 = re.search(r'(let mut deserializer =\s*AdtDeserializer::new_v0\([^;]*;\n)', db)
    m1 = re.search(r'(let mut deserializer =\s*AdtDeserializer::new\([^;]*;\n)', db)
    # a reader that does not create the deserializer the documented way gets no hints: it is then
    # judged by its contract alone (never skipped)
    h0 = '''        proof {
            let s = old(context).remaining();
            assert(deserializer.rwf());
            assert(deserializer.rs().wins =~~= Seq::new(%(k)d, |c: int| if c == 0 { s.skip(1) } else { Seq::<u8>::empty() }));
            assert(deserializer.rs().idx =~= Seq::new(%(k)d, |c: int| -1int));
            assert(deserializer.rh().removed =~= Set::<Seq<char>>::empty());
            assert(deserializer.rh().mo =~= Map::<(int, int), u8>::empty());
        }
''' % dict(k=k)
    h1 = '''        proof {
            let s = old(context).remaining();
            let h = adt_header(s.skip(1), old(context).state.val().strs(), s[0] as nat + 1)->Some_0;
            assert(deserializer.rwf());
            assert(deserializer.rs().wins =~~= Seq::new(%(k)d, |c: int| if c <= s[0] { s.skip(1).subrange(h.wins[c].0 as int, h.wins[c].1 as int) } else { Seq::<u8>::empty() }));
            assert(deserializer.rs().idx =~= Seq::new(%(k)d, |c: int| -1int));
        }
''' % dict(k=k)
    # insert the later one first so that positions stay valid
    for m, hint in sorted([(m, h) for m, h in ((m0, h0), (m1, h1)) if m], key=lambda x: -x[0].end()):
        db = db[:m.end()] + hint + db[m.end():]
    lost = [n for n, m in (('new_v0-statement', m0), ('new-statement', m1)) if not m]
    return db, lost


def gen_reader_full(X, d, steps, core, H, expanded):
    """field-level reader of a struct with evolution steps, or None (see reader_spec)"""
    rs = reader_spec(X, 'struct ' + X, d['evolution'], steps, core, H['strlit'])
    if rs is None:
        return None
    G, specs = rs
    lf = core.lf
    gv = '(' + ', '.join('self.%s.gv()' % f['name'] for f in lf) + (',' if len(lf) == 1 else '') + ')'
    db = H['norm_paths'](H['impl_fn'](expanded, 'BinaryDeserializer', X))
    db, lost = annotate_reader(db, X, core.k)
    db = db.replace('{', '{\n        broadcast use {lemma_rf_step, lemma_rof_step};\n        proof { reveal_strlits(); reveal(dec_%s); }' % X, 1)
    trans = ''.join('\n        r is Ok ==> r->Ok_0.%s == (%s),' % (f['name'], f['transient']) for f in d['fields'] if f['transient'] is not None)
    return DE_FULL_TMPL % dict(X=X, G=G, specs=specs, gv=gv, body=db, trans_ens=('\n    ensures' + trans) if trans else '', lost=(' lost=' + ';'.join(lost)) if lost else '')


class Core:
    """spec text fragments of one record with evolution steps (a struct, or one enum case).
    lf = serialized fields in declaration order, steps = [(kind, name)] read from the expansion,
    recv(f) = spec expression of the field's value"""

    def __init__(self, lf, steps, recv, strlit):
        self.lf, self.steps, self.recv, self.strlit = lf, steps, recv, strlit
        self.k = len(steps)
        self.V = self.k - 1
        self.gen = {}
        for i, (kind, name) in enumerate(steps):
            if kind == 'FieldAdded':
                self.gen[name] = i
        self.fi = 'Map::<Seq<char>, FieldPosition>::empty()'
        percount = {}
        self.pos_of = {}
        for f in lf:
            c = self.gen.get(f['name'], 0)
            p = percount.get(c, 0)
            percount[c] = p + 1
            self.pos_of[f['name']] = (c, p)
            self.fi += '.insert(%s, FieldPosition { chunk: %du8, position: %du8 })' % (strlit(f['name']), c, p)
        evos = []
        self.removed = 'Set::<Seq<char>>::empty()'
        for kind, name in steps:
            if kind == 'InitialVersion':
                evos.append('Evo::Initial')
            elif kind == 'FieldAdded':
                evos.append('Evo::Added { name: %s }' % strlit(name))
            elif kind == 'FieldMadeOptional':
                evos.append('Evo::MadeOptional { name: %s }' % strlit(name))
            elif kind == 'FieldRemoved':
                evos.append('Evo::Removed { name: %s }' % strlit(name))
                self.removed += '.insert(%s)' % strlit(name)
            elif kind == 'FieldMadeTransient':
                evos.append('Evo::MadeTransient { name: %s }' % strlit(name))
                self.removed += '.insert(%s)' % strlit(name)
        self.evos = ', '.join(evos)
        self.vwf = ' && '.join('%s.vwf()' % recv(f) for f in lf) or 'true'

    def ts(self, t0):
        ts = [t0]
        for f in self.lf:
            ts.append('%s.tbl_after(%s)' % (self.recv(f), ts[-1]))
        return ts

    def chunks(self, t0, upto=None):
        ts = self.ts(t0)
        lf = self.lf if upto is None else self.lf[:upto]
        ch = []
        for c in range(self.k):
            parts = ['Seq::<u8>::empty()'] + ['%s.enc(%s)' % (self.recv(f), ts[i]) for i, f in enumerate(lf) if self.gen.get(f['name'], 0) == c]
            ch.append(' + '.join(parts))
        return ch

    def ok(self, t0):
        ts = self.ts(t0)
        return ' && '.join('%s.ser_ok(%s)' % (self.recv(f), ts[i]) for i, f in enumerate(self.lf)) or 'true'

    def header(self, t0):
        """header bytes and table after the header, per the documented step codes (inline form)"""
        return 'enc_hdr(seq![%s], seq_lens(seq![%s]), %s, %s, %s, %d)' % (
            self.evos, ', '.join(self.chunks(t0)), self.fi, self.removed, self.ts(t0)[-1], self.k)

    def partial_maps(self, j):
        fim = 'Map::<Seq<char>, FieldPosition>::empty()'
        lim = 'Map::<int, u8>::empty()'
        for f in self.lf[:j]:
            c, p = self.pos_of[f['name']]
            fim += '.insert(%s, FieldPosition { chunk: %du8, position: %du8 })' % (self.strlit(f['name']), c, p)
            lim += '.insert(%dint, %du8)' % (c, p)
        return fim, lim


def annotate_writer(b, what, core, pre, anchor):
    """insert the proof hints into a block `b` that creates `serializer` with AdtSerializer::new,
    writes the fields and calls finish().  pre = spec expression of the stream before the version
    byte; anchor = compiled regex of the statement after which the first snapshot is taken"""
    lf, k, V, strlit, recv = core.lf, core.k, core.V, core.strlit, core.recv
    T = core.ts('%s.state.strs()' % pre)
    m = anchor.search(b)
    if not m:
        raise rx.Lost('serialize of %s: statement creating the serializer not found' % what)
    ins0 = (m.group(0) + '        let ghost s0 = serializer;\n'
            '        proof { reveal_strlits(); lemma_swrote_facts(%s, s0.ctx(), seq![%du8], %s.state.strs()); }\n' % (pre, V, pre))
    b = b[:m.start()] + ins0 + b[m.end():]
    for j, f in enumerate(lf):
        pat = re.compile(r'(\n\s*serializer\.write_field\("%s",\s*&%s\)\?;)' % (re.escape(f['name']), re.escape(f['name'])))
        mm = pat.search(b)
        if not mm:
            raise rx.Lost('serialize of %s: write_field("%s") not found (the expansion does not follow the documented procedure)' % (what, f['name']))
        ch = core.chunks('%s.state.strs()' % pre, upto=j + 1)
        fim, lim = core.partial_maps(j + 1)
        asserts = ''.join('            assert(serializer.chunk(%d) =~= %s);\n' % (c, ch[c]) for c in range(k))
        hint = '''
        proof {
            lemma_wf_chunked(&s%(j)d, &serializer, %(nm)s, %(fv)s.enc(%(tj)s), %(tj1)s);
            lemma_swrote_facts(s%(j)d.ctx(), serializer.ctx(), Seq::<u8>::empty(), %(tj1)s);
            lemma_swrote_trans(%(pre)s, s%(j)d.ctx(), serializer.ctx(), seq![%(V)du8], Seq::<u8>::empty(), %(tj)s, %(tj1)s);
            assert(seq![%(V)du8] + Seq::<u8>::empty() =~= seq![%(V)du8]);
%(asserts)s            assert(serializer.field_indices@ =~= %(fim)s);
            assert(serializer.last_index_per_chunk@ =~= %(lim)s);
        }
        let ghost s%(j1)d = serializer;''' % dict(j=j, j1=j + 1, nm=strlit(f['name']), fv=recv(f), tj=T[j], tj1=T[j + 1], V=V, asserts=asserts, fim=fim, lim=lim, pre=pre)
        b = b[:mm.end()] + hint + b[mm.end():]
    # before finish(): the buffers are the generated chunks
    mm = re.search(r'\n(\s*)serializer\.finish\(\)\s*\n', b)
    if not mm:
        raise rx.Lost('serialize of %s: finish() not found' % what)
    chF = core.chunks('%s.state.strs()' % pre)
    pre_finish = '\n        proof {\n            assert(buf_seqs(serializer.buffers@) =~= seq![%s]);\n            assert(seq_lens(buf_seqs(serializer.buffers@)) =~= seq_lens(seq![%s]));\n        }' % (', '.join(chF), ', '.join(chF))
    b = b[:mm.start()] + pre_finish + b[mm.start():]
    return b


def gen_struct_evolved(d, expanded, H):
    X = d['name']
    static = ('%s_metadata' % X).upper()
    steps = H['metadata_steps'](expanded, static)
    k = len(steps)
    live = H['live']
    lf = live(d['fields'])
    strlit = H['strlit']
    out = []
    out.append('pub struct %s {\n%s\n}\n' % (X, '\n'.join('    pub %s: %s,' % (f['name'], f['ty']) for f in d['fields'])))
    out.append(H['gen_metadata'](static, steps))
    core = Core(lf, steps, lambda f: 'self.%s' % f['name'], strlit)
    # ---- body with hints
    b = H['norm_paths'](H['impl_fn'](expanded, 'BinarySerializer', X))
    b = annotate_writer(b, X, core, 'old(context)', re.compile(r'\n(\s*)let %s \{[^}]*\} = self;\n' % X))
    b = b.replace('{', '{\n        broadcast use {lemma_swrote_trans_b, lemma_swrote_facts_b};', 1)
    out.append(SER_TMPL % dict(X=X, tn=core.ts('t')[-1], chunks=', '.join(core.chunks('t')), fi=core.fi, evos=core.evos, removed=core.removed,
                               k=k, v=core.V, ok=core.ok('t'), vwf=core.vwf, body=b))
    full = gen_reader_full(X, d, steps, core, H, expanded)
    if full is not None:
        out.append(full)
    else:
        # a declared default the spec cannot name: the reader is validated for totality only
        db = H['norm_paths'](H['impl_fn'](expanded, 'BinaryDeserializer', X))
        db = db.replace('{', '{\n        broadcast use {lemma_rf_any, lemma_rof_any};\n        proof { reveal_strlits(); }', 1)
        out.append(DE_TMPL % dict(X=X, body=db))
    out.append(LEMMA_TMPL % dict(X=X, k=k))
    lits = set(f['name'] for f in d['fields']) | set(n for _, n in steps if n)
    return '\n'.join(out), sorted(lits)
