"""evolved structs (imported by catgen.py): writer validated against the generated record
layout; reader validated for totality only (emitted as an inherent fn, E9-like)"""
import re

import rx  # noqa

SER_TMPL = """impl %(X)s {
    /// string table after the fields (declaration order), chunk contents, recorded positions
    pub open spec fn t_fields(&self, t: Tbl) -> Tbl { %(tn)s }
    pub open spec fn chunks(&self, t: Tbl) -> Seq<Seq<u8>> { seq![%(chunks)s] }
    pub open spec fn positions() -> Map<Seq<char>, FieldPosition> { %(fi)s }
    pub open spec fn evos() -> Seq<Evo> { seq![%(evos)s] }
    pub open spec fn removed_names() -> Set<Seq<char>> { %(removed)s }
    /// header bytes and table after the header, per the documented step codes
    pub open spec fn header(&self, t: Tbl) -> Option<(Seq<u8>, Tbl)> {
        enc_hdr(Self::evos(), seq_lens(self.chunks(t)), Self::positions(), Self::removed_names(), self.t_fields(t), %(k)d)
    }
}

impl BinarySerializer for %(X)s {
    open spec fn ser_ok(&self, t: Tbl) -> bool { %(ok)s && self.header(t) is Some }
    /// version byte, header (one step per evolution step), chunks in generation order
    open spec fn enc(&self, t: Tbl) -> Seq<u8> {
        match self.header(t) { Some((hb, t2)) => seq![%(v)du8] + (hb + concat_chunks(self.chunks(t), %(k)d)), None => Seq::empty() }
    }
    open spec fn tbl_after(&self, t: Tbl) -> Tbl {
        match self.header(t) { Some((hb, t2)) => t2, None => t }
    }
    open spec fn vwf(&self) -> bool { %(vwf)s }

//#fn id=catalogue::%(X)s::serialize tags=C02,C03,C14,C17,C04 mode=body
#[verifier::rlimit(200)]
fn serialize<Output: BinaryOutput>(&self, context: &mut SerializationContext<Output>) -> (r: Result<()>)
%(body)s
}
"""

LEMMA_TMPL = """// C09 for records with evolution headers: the reader decodes the header BEFORE the fields, so the
// header's deduplicated names must be encoded against the string table as it was before the
// fields.  The writer builds the header at finish(), after the fields (known finding D12).
//#fn id=catalogue::%(X)s::lemma_header_table_order tags=C09 mode=lemma
pub proof fn lemma_header_table_order_%(X)s(v: &%(X)s, t: Tbl)
    requires
        v.ser_ok(t),
    ensures
        v.header(t) == enc_hdr(%(X)s::evos(), seq_lens(v.chunks(t)), %(X)s::positions(), %(X)s::removed_names(), t, %(k)d),
{
}
"""

DE_TMPL = """impl %(X)s {
//#fn id=catalogue::%(X)s::deserialize tags=C02,C05 mode=body
#[verifier::rlimit(100)]
pub fn deserialize(context: &mut DeserializationContext<'_>) -> (r: Result<Self>)
    requires
        old(context).iwf(),
    ensures
        // totality only: Ok or Err for every input, every API precondition met (the field-level
        // outcome table is verified on read_field / read_optional_field themselves)
        final(context).iwf(),
%(body)s
}
"""


def gen_struct_evolved(d, expanded, H):
    X = d['name']
    static = ('%s_metadata' % X).upper()
    steps = H['metadata_steps'](expanded, static)
    k = len(steps)
    live = H['live']
    lf = live(d['fields'])
    strlit = H['strlit']
    out = []
    out.append('pub struct %s {\n%s\n}\n' % (X, '\n'.join('    pub %s: %s,' % (f['name'], f['ty']) for f in d['fields'])))
    out.append(H['gen_metadata'](static, steps))
    gen = {}
    for i, (kind, name) in enumerate(steps):
        if kind == 'FieldAdded':
            gen[name] = i

    def specs(recv, t0):
        ts = [t0]
        for f in lf:
            ts.append('%s.tbl_after(%s)' % (recv(f), ts[-1]))
        return ts
    ts = specs(lambda f: 'self.%s' % f['name'], 't')
    chunks = []
    for c in range(k):
        parts = ['Seq::<u8>::empty()'] + ['self.%s.enc(%s)' % (f['name'], ts[i]) for i, f in enumerate(lf) if gen.get(f['name'], 0) == c]
        chunks.append(' + '.join(parts))
    fi = 'Map::<Seq<char>, FieldPosition>::empty()'
    percount = {}
    pos_of = {}
    for f in lf:
        c = gen.get(f['name'], 0)
        p = percount.get(c, 0)
        percount[c] = p + 1
        pos_of[f['name']] = (c, p)
        fi += '.insert(%s, FieldPosition { chunk: %du8, position: %du8 })' % (strlit(f['name']), c, p)
    evos = []
    removed = 'Set::<Seq<char>>::empty()'
    for kind, name in steps:
        if kind == 'InitialVersion':
            evos.append('Evo::Initial')
        elif kind == 'FieldAdded':
            evos.append('Evo::Added { name: %s }' % strlit(name))
        elif kind == 'FieldMadeOptional':
            evos.append('Evo::MadeOptional { name: %s }' % strlit(name))
        elif kind == 'FieldRemoved':
            evos.append('Evo::Removed { name: %s }' % strlit(name))
            removed += '.insert(%s)' % strlit(name)
        elif kind == 'FieldMadeTransient':
            evos.append('Evo::MadeTransient { name: %s }' % strlit(name))
            removed += '.insert(%s)' % strlit(name)
    ok = ' && '.join('self.%s.ser_ok(%s)' % (f['name'], ts[i]) for i, f in enumerate(lf)) or 'true'
    vwf = ' && '.join('self.%s.vwf()' % f['name'] for f in lf) or 'true'
    # ---- body with hints
    b = H['norm_paths'](H['impl_fn'](expanded, 'BinarySerializer', X))
    T = specs(lambda f: 'self.%s' % f['name'], 'old(context).state.strs()')
    m = re.search(r'\n(\s*)let %s \{[^}]*\} = self;\n' % X, b)
    if not m:
        raise rx.Lost('serialize of %s: destructuring statement not found' % X)
    V = k - 1
    ins0 = (m.group(0) + '        let ghost s0 = serializer;\n'
            '        proof { reveal_strlits(); lemma_swrote_facts(old(context), s0.ctx(), seq![%du8], old(context).state.strs()); }\n' % V)
    b = b.replace(m.group(0), ins0, 1)
    # partial chunk contents / maps after j fields
    def partial(j):
        ch = []
        for c in range(k):
            parts = ['Seq::<u8>::empty()'] + ['self.%s.enc(%s)' % (f['name'], T[i]) for i, f in enumerate(lf[:j]) if gen.get(f['name'], 0) == c]
            ch.append(' + '.join(parts))
        fim = 'Map::<Seq<char>, FieldPosition>::empty()'
        lim = 'Map::<int, u8>::empty()'
        for f in lf[:j]:
            c, p = pos_of[f['name']]
            fim += '.insert(%s, FieldPosition { chunk: %du8, position: %du8 })' % (strlit(f['name']), c, p)
            lim += '.insert(%dint, %du8)' % (c, p)
        return ch, fim, lim
    for j, f in enumerate(lf):
        pat = re.compile(r'(\n\s*serializer\.write_field\("%s",\s*&%s\)\?;)' % (re.escape(f['name']), re.escape(f['name'])))
        mm = pat.search(b)
        if not mm:
            raise rx.Lost('serialize of %s: write_field("%s") not found (the expansion does not follow the documented procedure)' % (X, f['name']))
        ch, fim, lim = partial(j + 1)
        asserts = ''.join('            assert(serializer.chunk(%d) =~= %s);\n' % (c, ch[c]) for c in range(k))
        hint = '''
        proof {
            lemma_wf_chunked(&s%(j)d, &serializer, %(nm)s, self.%(f)s.enc(%(tj)s), %(tj1)s);
            lemma_swrote_facts(s%(j)d.ctx(), serializer.ctx(), Seq::<u8>::empty(), %(tj1)s);
            lemma_swrote_trans(old(context), s%(j)d.ctx(), serializer.ctx(), seq![%(V)du8], Seq::<u8>::empty(), %(tj)s, %(tj1)s);
            assert(seq![%(V)du8] + Seq::<u8>::empty() =~= seq![%(V)du8]);
%(asserts)s            assert(serializer.field_indices@ =~= %(fim)s);
            assert(serializer.last_index_per_chunk@ =~= %(lim)s);
        }
        let ghost s%(j1)d = serializer;''' % dict(j=j, j1=j + 1, nm=strlit(f['name']), f=f['name'], tj=T[j], tj1=T[j + 1], V=V, asserts=asserts, fim=fim, lim=lim)
        b = b[:mm.end()] + hint + b[mm.end():]
    # before finish(): the buffers are the generated chunks
    mm = re.search(r'\n(\s*)serializer\.finish\(\)\s*\n', b)
    if not mm:
        raise rx.Lost('serialize of %s: finish() not found' % X)
    chF, fimF, limF = partial(len(lf))
    pre_finish = '\n        proof {\n            assert(buf_seqs(serializer.buffers@) =~= seq![%s]);\n            assert(seq_lens(buf_seqs(serializer.buffers@)) =~= seq_lens(seq![%s]));\n        }' % (', '.join(chF), ', '.join(chF))
    b = b[:mm.start()] + pre_finish + b[mm.start():]
    b = b.replace('{', '{\n        broadcast use {lemma_swrote_trans_b, lemma_swrote_facts_b};', 1)
    out.append(SER_TMPL % dict(X=X, tn=ts[-1], chunks=', '.join(chunks), fi=fi, evos=', '.join(evos), removed=removed,
                               k=k, v=V, ok=ok, vwf=vwf, body=b))
    db = H['norm_paths'](H['impl_fn'](expanded, 'BinaryDeserializer', X))
    db = db.replace('{', '{\n        broadcast use {lemma_rf_any, lemma_rof_any};\n        proof { reveal_strlits(); }', 1)
    out.append(DE_TMPL % dict(X=X, body=db))
    out.append(LEMMA_TMPL % dict(X=X, k=k))
    lits = set(f['name'] for f in d['fields']) | set(n for _, n in steps if n)
    return '\n'.join(out), sorted(lits)
