#!/usr/bin/env python3
"""catgen.py -- translation validation of the derive(BinaryCodec) expansions (C02, C13, C14).

Every run:
  1. the catalogue crate (/verif/catalogue, real `desert` + real `desert_macro` from /repo) is
     expanded with `cargo +nightly rustc -- -Zunpretty=expanded`;
  2. for each catalogue type the expanded `serialize` / `deserialize` bodies are copied VERBATIM
     (path prefixes `desert::` / `desert::adt::` dropped, closures given their contract: E12) into
     a Verus unit appended to the library unit (all library contracts of specs/ are in scope);
  3. the contract of each expanded function is generated here from the DECLARATION alone, by an
     interpreter of the documented procedure that never looks at the expansion: fields in
     declaration order, transient fields skipped and defaulted, `Option` detected by name,
     constructor index = declaration position (or position in identifier order under
     #[sorted_constructors]), each variant its own record.
  Verus then proves expansion == interpreter for ALL values of each catalogue type.

The metadata statics (`lazy_static`) become constants whose content is computed from the
evolution steps found in the expansion by the (ASSUMED) contract of AdtMetadata::new.
"""
import os
import re
import subprocess
import sys

sys.path.insert(0, os.path.dirname(os.path.abspath(__file__)))
import rx  # noqa

ROOT = os.path.join(os.path.dirname(os.path.abspath(__file__)), '..')


class Unsupported(Exception):
    pass


# ----------------------------------------------------------------------------- declarations
def split_top(text, sep=','):
    out, depth, cur = [], 0, ''
    i = 0
    while i < len(text):
        ch = text[i]
        if ch in '([{<':
            depth += 1
        elif ch in ')]}>':
            if not (ch == '>' and i > 0 and text[i - 1] == '-'):
                depth -= 1
        if ch == sep and depth == 0:
            out.append(cur)
            cur = ''
        else:
            cur += ch
        i += 1
    if cur.strip():
        out.append(cur)
    return [x.strip() for x in out if x.strip()]


def is_option(ty):
    """the documented name-based rule of the macro"""
    t = re.sub(r'\s+', '', ty)
    m = re.match(r'^((?:std|core)::option::)?Option<(.*)>$', t)
    return m.group(2) if m else None


def parse_fields(body, named):
    fields = []
    for idx, part in enumerate(split_top(body)):
        attrs = []
        rest = part
        while True:
            m = re.match(r'\s*#\[', rest)
            if not m:
                break
            ob = rest.index('[')
            cb = rx.match_close(rest, ob)
            attrs.append(rest[ob + 1:cb])
            rest = rest[cb + 1:]
        rest = re.sub(r'^\s*pub(\s*\([^)]*\))?\s+', '', rest.strip())
        if named:
            name, ty = rest.split(':', 1)
            name = name.strip()
        else:
            name, ty = 'field%d' % idx, rest
        ty = ty.strip()
        transient = None
        for a in attrs:
            m = re.match(r'transient\s*\((.*)\)\s*$', a, re.S)
            if m:
                transient = m.group(1).strip()
        fields.append(dict(name=name, ty=ty, transient=transient, opt=is_option(ty), pos=idx))
    return fields


def parse_evolution(attrs):
    steps = []
    for a in attrs:
        m = re.match(r'evolution\s*\((.*)\)\s*$', a, re.S)
        if not m:
            continue
        for st in split_top(m.group(1)):
            mm = re.match(r'(\w+)\s*\((.*)\)$', st, re.S)
            kind, args = mm.group(1), split_top(mm.group(2))
            name = args[0].strip().strip('"')
            steps.append(dict(kind=kind, name=name, default=args[1].strip() if len(args) > 1 else None))
    return steps


def parse_decls(src):
    """type declarations of the catalogue source (attributes included)"""
    decls = {}
    for it in rx.split_items(src, 0, len(src)):
        if it['kind'] not in ('struct', 'enum'):
            continue
        text = src[it['start']:it['end']]
        attrs = []
        rest = text
        while True:
            m = re.match(r'\s*#\[', rest)
            if not m:
                break
            ob = rest.index('[')
            cb = rx.match_close(rest, ob)
            attrs.append(rest[ob + 1:cb])
            rest = rest[cb + 1:]
        if not any(re.search(r'\bBinaryCodec\b', a) for a in attrs):
            continue
        ob = rest.index('{')
        cb = rx.match_close(rest, ob)
        body = rest[ob + 1:cb]
        d = dict(name=it['name'], kind=it['kind'], evolution=parse_evolution(attrs),
                 sorted=any(a.strip() == 'sorted_constructors' for a in attrs))
        if it['kind'] == 'struct':
            d['fields'] = parse_fields(body, True)
        else:
            variants = []
            for vi, part in enumerate(split_top(body)):
                vattrs = []
                r2 = part
                while True:
                    m = re.match(r'\s*#\[', r2)
                    if not m:
                        break
                    o2 = r2.index('[')
                    c2 = rx.match_close(r2, o2)
                    vattrs.append(r2[o2 + 1:c2])
                    r2 = r2[c2 + 1:]
                r2 = r2.strip()
                m = re.match(r'(\w+)\s*(.*)$', r2, re.S)
                vname, vrest = m.group(1), m.group(2).strip()
                if vrest.startswith('{'):
                    shape, fields = 'named', parse_fields(vrest[1:rx.match_close(vrest, 0)], True)
                elif vrest.startswith('('):
                    shape, fields = 'tuple', parse_fields(vrest[1:rx.match_close(vrest, 0)], False)
                else:
                    shape, fields = 'unit', []
                variants.append(dict(name=vname, shape=shape, fields=fields, decl_pos=vi,
                                     transient=any(a.strip() == 'transient' for a in vattrs),
                                     evolution=parse_evolution(vattrs)))
            order = sorted(variants, key=lambda v: v['name']) if d['sorted'] else variants
            for i, v in enumerate(order):
                v['idx'] = i
            d['variants'] = variants
        decls[it['name']] = d
    return decls


# ----------------------------------------------------------------------------- expansion
def expand(repo, outdir):
    cat = os.path.join(ROOT, 'catalogue')
    lock = os.path.join(repo, 'Cargo.lock')
    if os.path.exists(lock):
        open(os.path.join(cat, 'Cargo.lock'), 'w').write(open(lock).read())
    env = dict(os.environ, CARGO_NET_OFFLINE='true', CARGO_TARGET_DIR=os.path.join(outdir, 'cat-target'))
    p = subprocess.run(['cargo', '+nightly', 'rustc', '--offline', '--lib', '--', '-Zunpretty=expanded'],
                       cwd=cat, env=env, capture_output=True, text=True, timeout=1800)
    if p.returncode != 0:
        raise rx.Lost('catalogue does not expand: ' + p.stderr[-600:])
    return p.stdout


def norm_paths(text):
    text = re.sub(r'^\s*use desert::BinaryInput;\s*\n', '', text, flags=re.M)
    text = text.replace('desert::adt::', '').replace('desert::', '')
    return text


def impl_fn(expanded, trait, ty):
    m = re.search(r'impl desert::%s for %s \{' % (trait, re.escape(ty)), expanded)
    if not m:
        raise rx.Lost('expansion has no impl %s for %s' % (trait, ty))
    ob = m.end() - 1
    cb = rx.match_close(expanded, ob)
    inner = expanded[ob + 1:cb]
    fb = inner.index('{', inner.index('fn '))
    fe = rx.match_close(inner, fb)
    return inner[fb:fe + 1]


def metadata_steps(expanded, static_name):
    m = re.search(r'impl ::lazy_static::__Deref for %s \{' % re.escape(static_name), expanded)
    if not m:
        raise rx.Lost('no metadata static ' + static_name)
    ob = m.end() - 1
    cb = rx.match_close(expanded, ob)
    body = expanded[ob:cb]
    steps = []
    for pm in re.finditer(r'evolution_steps\.push\(desert::Evolution::(\w+)(\s*\{\s*name:\s*"([^"]*)"\.to_string\(\),?\s*\})?\)', body):
        steps.append((pm.group(1), pm.group(3)))
    return steps


# ----------------------------------------------------------------------------- spec generation
def strlit(name):
    return '"%s"@' % name


def evo_terms(steps):
    t = []
    for kind, name in steps:
        t.append({'InitialVersion': 'Evo::Initial', 'FieldAdded': 'Evo::Added { name: %s }', 'FieldMadeOptional': 'Evo::MadeOptional { name: %s }',
                  'FieldRemoved': 'Evo::Removed { name: %s }', 'FieldMadeTransient': 'Evo::MadeTransient { name: %s }'}[kind].replace('%s', strlit(name) if name else ''))
    return t


def gen_steps_check(owner, static, steps, declared):
    """the steps the expansion registers in its metadata static must be the declaration's
    #[evolution(..)] list (after the implicit initial version) -- the specs are generated from the
    former, so this obligation is what ties them to the declaration"""
    want = [('InitialVersion', None)] + [(st['kind'], st['name']) for st in declared]
    for kind, _ in want:
        if kind not in ('InitialVersion', 'FieldAdded', 'FieldMadeOptional', 'FieldRemoved', 'FieldMadeTransient'):
            raise Unsupported('evolution step ' + kind)
    return '''
//#fn id=catalogue::%(owner)s::metadata_steps tags=C02,C03,C14,C13 mode=lemma
pub proof fn lemma_metadata_steps_%(static)s()
    ensures
        // registered by the expansion == declared
        seq![%(have)s] =~= seq![%(want)s],
{
}
''' % dict(owner=owner, static=static, have=', '.join(evo_terms(steps)), want=', '.join(evo_terms(want)))


STATICS = {}


def gen_metadata(static, steps):
    """constant + Deref whose ensures is the ASSUMED contract of AdtMetadata::new on these steps"""
    STATICS[static] = [list(x) for x in steps]
    n = len(steps)
    fg = 'Map::<Seq<char>, u8>::empty()'
    mo = 'Map::<Seq<char>, u8>::empty()'
    rem = 'Set::<Seq<char>>::empty()'
    evo = []
    for i, (kind, name) in enumerate(steps):
        if kind == 'FieldAdded':
            fg += '.insert(%s, %du8)' % (strlit(name), i)
            evo.append('Evo::Added { name: %s }' % strlit(name))
        elif kind == 'FieldMadeOptional':
            mo += '.insert(%s, %du8)' % (strlit(name), i)
            evo.append('Evo::MadeOptional { name: %s }' % strlit(name))
        elif kind == 'FieldRemoved':
            rem += '.insert(%s)' % strlit(name)
            evo.append('Evo::Removed { name: %s }' % strlit(name))
        elif kind == 'FieldMadeTransient':
            rem += '.insert(%s)' % strlit(name)
            evo.append('Evo::MadeTransient { name: %s }' % strlit(name))
        elif kind == 'InitialVersion':
            evo.append('Evo::Initial')
        else:
            raise Unsupported('evolution step ' + kind)
    t = static + '_T'
    return '''
// E7: lazy_static metadata `%(static)s`; steps read from the expansion: %(steps)s
// ASSUMPTION[AdtMetadata::new]: its content is what the assumed contract of AdtMetadata::new gives
#[allow(non_camel_case_types)]
pub struct %(t)s {}
pub const %(static)s: %(t)s = %(t)s {};
impl core::ops::Deref for %(t)s {
    type Target = AdtMetadata;
    #[verifier::external_body]
    fn deref(&self) -> (r: &AdtMetadata)
        ensures
            r.mwf(),
            r.version == %(v)d,
            r.field_generations@ == %(fg)s,
            r.made_optional_at@ == %(mo)s,
            r.removed_fields@ == %(rem)s,
            r.evolution_steps@.len() == %(n)d,
            evo_models(r.evolution_steps@) =~= seq![%(evo)s],
    {
        unimplemented!()
    }
}
''' % dict(static=static, t=t, steps=steps, v=n - 1, n=n, fg=fg, mo=mo, rem=rem, evo=', '.join(evo))


def live(fields):
    return [f for f in fields if f['transient'] is None]


def gname(ty):
    return '<%s as BinaryDeserializer>::G' % ty


def gen_v0_fields_spec(fname, fields, generics=''):
    """positional fields of a version-0 definition read from window w (both stored forms):
    plain -> dec_field, Option -> dec_ofield; p tracks the per-chunk field counter"""
    lf = live(fields)
    G = '(' + ', '.join(gname(f['ty']) for f in lf) + (',' if len(lf) == 1 else '') + ')'
    lines = []

    def nest(i, w, t, p, ind):
        sp = '    ' * ind
        if i == len(lf):
            vals = ', '.join('v%d' % k for k in range(len(lf))) + (',' if len(lf) == 1 else '')
            nsum = ' + '.join(['n%d' % k for k in range(len(lf))]) or '0nat'
            return 'Dec::Ok { v: (%s), n: %s, t: %s }' % (vals, nsum, t)
        f = lf[i]
        if f['opt'] is not None:
            call = 'dec_ofield::<%s>(%s, %s, removed.contains(%s))' % (f['opt'], w, t, strlit(f['name']))
            p2 = '(if removed.contains(%s) { %s } else { %s + 1 })' % (strlit(f['name']), p, p)
        else:
            call = 'dec_field::<%s>(%s, %s, removed.contains(%s), mo.contains_key((0int, %s)))' % (f['ty'], w, t, strlit(f['name']), p)
            p2 = '(%s + 1)' % p
        return ('match %s {\n' % call
                + sp + '    Dec::Ok { v: v%d, n: n%d, t: t%d } => ' % (i, i, i + 1)
                + nest(i + 1, '%s.skip(n%d as int)' % (w, i), 't%d' % (i + 1), p2, ind + 1) + ',\n'
                + sp + '    Dec::Err => Dec::Err,\n' + sp + '}')
    body = nest(0, 'w', 't0', '0int', 1)
    return G, '''pub open spec fn %s(w: Seq<u8>, t0: Tbl, removed: Set<Seq<char>>, mo: Map<(int, int), u8>) -> Dec<%s> {
    %s
}
''' % (fname, G, body)


def thread(fields, recv, t0='t'):
    """table threading in declaration order over the live fields: returns list of (field, t_i) and t_n"""
    ts = [t0]
    for f in live(fields):
        ts.append('%s.tbl_after(%s)' % (recv(f), ts[-1]))
    return ts


def gen_struct_v0(d, expanded):
    X = d['name']
    static = ('%s_metadata' % X).upper()
    steps = metadata_steps(expanded, static)
    lf = live(d['fields'])
    out = []
    fields_txt = '\n'.join('    pub %s: %s,' % (f['name'], f['ty']) for f in d['fields'])
    out.append('pub struct %s {\n%s\n}\n' % (X, fields_txt))
    out.append(gen_metadata(static, steps))
    recv = lambda f: 'self.%s' % f['name']
    ts = thread(d['fields'], recv)
    ok = ' && '.join('self.%s.ser_ok(%s)' % (f['name'], ts[i]) for i, f in enumerate(lf)) or 'true'
    enc = ' + '.join(['seq![0u8]'] + ['self.%s.enc(%s)' % (f['name'], ts[i]) for i, f in enumerate(lf)])
    vwf = ' && '.join('self.%s.vwf()' % f['name'] for f in lf) or 'true'
    ser_body = norm_paths(impl_fn(expanded, 'BinarySerializer', X))
    # proof hints between the statements of the expanded serialize (statement positions exist)
    T = thread(d['fields'], lambda f: 'self.%s' % f['name'], 'old(context).state.strs()')

    def P(k):
        return ' + '.join(['seq![0u8]'] + ['self.%s.enc(%s)' % (f['name'], T[i]) for i, f in enumerate(lf[:k])])
    b = ser_body
    # after `let X { .. } = self;` the serializer is in its initial state
    m = re.search(r'\n(\s*)let %s \{[^}]*\} = self;\n' % X, b)
    if not m:
        raise rx.Lost('serialize of %s: destructuring statement not found' % X)
    ins0 = m.group(0) + '        let ghost s0 = serializer;\n        proof { reveal_strlits(); lemma_swrote_facts(old(context), s0.ctx(), seq![0u8], old(context).state.strs()); }\n'
    b = b.replace(m.group(0), ins0, 1)
    for k, f in enumerate(lf):
        pat = re.compile(r'(\n\s*serializer\.write_field\("%s",\s*&%s\)\?;)' % (re.escape(f['name']), re.escape(f['name'])))
        mm = pat.search(b)
        if not mm:
            raise rx.Lost('serialize of %s: write_field("%s") not found (the expansion does not follow the documented procedure)' % (X, f['name']))
        hint = '''
        proof {
            lemma_wf_v0(&s%(k)d, &serializer, %(nm)s, self.%(f)s.enc(%(tk)s), %(tk1)s);
            lemma_swrote_facts(s%(k)d.ctx(), serializer.ctx(), self.%(f)s.enc(%(tk)s), %(tk1)s);
            lemma_swrote_trans(old(context), s%(k)d.ctx(), serializer.ctx(), %(P)s, self.%(f)s.enc(%(tk)s), %(tk)s, %(tk1)s);
        }
        let ghost s%(k1)d = serializer;''' % dict(k=k, k1=k + 1, nm=strlit(f['name']), f=f['name'], tk=T[k], tk1=T[k + 1], P=P(k))
        b = b[:mm.end()] + hint + b[mm.end():]
    nlit = sorted(set([f['name'] for f in d['fields']]))
    out.append('''impl BinarySerializer for %(X)s {
    open spec fn ser_ok(&self, t: Tbl) -> bool { %(ok)s }
    open spec fn enc(&self, t: Tbl) -> Seq<u8> { %(enc)s }
    open spec fn tbl_after(&self, t: Tbl) -> Tbl { %(tn)s }
    open spec fn vwf(&self) -> bool { %(vwf)s }

//#fn id=catalogue::%(X)s::serialize tags=C02,C14,C17,C04 mode=body
fn serialize<Output: BinaryOutput>(&self, context: &mut SerializationContext<Output>) -> (r: Result<()>)
%(body)s
}
''' % dict(X=X, ok=ok, enc=enc, tn=ts[-1], vwf=vwf, body=b))
    # deserializer
    G, fspec = gen_v0_fields_spec('fields_%s' % X, d['fields'])
    out.append(fspec)
    gv = '(' + ', '.join('self.%s.gv()' % f['name'] for f in lf) + (',' if len(lf) == 1 else '') + ')'
    de_body = norm_paths(impl_fn(expanded, 'BinaryDeserializer', X))
    de_body = de_body.replace('{', '{\n        broadcast use {lemma_rf_tuple, lemma_rof_tuple};\n        proof { reveal_strlits(); }', 1)
    trans = ''.join('\n        r is Ok ==> r->Ok_0.%s == (%s),' % (f['name'], f['transient']) for f in d['fields'] if f['transient'] is not None)
    out.append('''impl BinaryDeserializer for %(X)s {
    type G = %(G)s;
    open spec fn gv(&self) -> %(G)s { %(gv)s }
    /// version byte 0: the fields follow directly; k >= 1: header of k + 1 steps and chunks, this
    /// definition's fields all live in chunk 0
    open spec fn dec(s: Seq<u8>, t: Tbl) -> Dec<%(G)s> {
        if s.len() < 1 { Dec::Err } else if s[0] == 0 {
            match fields_%(X)s(s.skip(1), t, Set::empty(), Map::empty()) {
                Dec::Ok { v, n, t: t2 } => Dec::Ok { v, n: n + 1, t: t2 },
                Dec::Err => Dec::Err,
            }
        } else {
            match adt_header(s.skip(1), t, s[0] as nat + 1) {
                Some(h) => match fields_%(X)s(s.skip(1).subrange(h.wins[0].0 as int, h.wins[0].1 as int), h.t, h.removed, h.made_opt) {
                    Dec::Ok { v, n, t: t2 } => Dec::Ok { v, n: h.total + 1, t: t2 },
                    Dec::Err => Dec::Err,
                },
                None => Dec::Err,
            }
        }
    }

//#fn id=catalogue::%(X)s::deserialize tags=C02,C14,C05,C06,C04 mode=body
#[verifier::rlimit(100)]
fn deserialize(context: &mut DeserializationContext<'_>) -> (r: Result<Self>)%(trans_ens)s
%(body)s
}
''' % dict(X=X, G=G, gv=gv, body=de_body, trans_ens=('\n    ensures' + trans) if trans else ''))
    return '\n'.join(out), nlit


def generate(repo, build_dir, lib_unit_path, out_path):
    src = open(os.path.join(ROOT, 'catalogue', 'src', 'lib.rs')).read()
    decls = parse_decls(src)
    STATICS.clear()
    expanded = expand(repo, build_dir)
    open(os.path.join(build_dir, 'catalogue_expanded.rs'), 'w').write(expanded)
    parts = []
    lits = set()
    skipped = []
    for name, d in decls.items():
        try:
            if d['kind'] == 'struct' and not d['evolution']:
                txt, nl = gen_struct_v0(d, expanded)
                txt += gen_steps_check(name, ('%s_metadata' % name).upper(), metadata_steps(expanded, ('%s_metadata' % name).upper()), d['evolution'])
                parts.append('// ================= catalogue entry %s (struct, version 0)\n' % name + txt)
                lits |= set(nl)
            elif d['kind'] == 'enum':
                import catgen_enum
                H = dict(gen_metadata=gen_metadata, metadata_steps=metadata_steps, live=live, norm_paths=norm_paths, impl_fn=impl_fn, strlit=strlit)
                txt, nl = catgen_enum.gen_enum_v0(d, expanded, H)
                txt += gen_steps_check(name, ('%s_metadata' % name).upper(), metadata_steps(expanded, ('%s_metadata' % name).upper()), d['evolution'])
                for v in d['variants']:
                    cs = ('%s_%s_metadata' % (name, v['name'])).upper()
                    try:
                        txt += gen_steps_check('%s::%s' % (name, v['name']), cs, metadata_steps(expanded, cs), v['evolution'])
                    except rx.Lost:
                        pass
                parts.append('// ================= catalogue entry %s (enum, version-0 cases)\n' % name + txt)
                lits |= set(nl)
            elif d['kind'] == 'struct' and d['evolution']:
                import catgen_evolved
                H = dict(gen_metadata=gen_metadata, metadata_steps=metadata_steps, live=live, norm_paths=norm_paths, impl_fn=impl_fn, strlit=strlit)
                txt, nl = catgen_evolved.gen_struct_evolved(d, expanded, H)
                txt += gen_steps_check(name, ('%s_metadata' % name).upper(), metadata_steps(expanded, ('%s_metadata' % name).upper()), d['evolution'])
                parts.append('// ================= catalogue entry %s (struct with evolution steps)\n' % name + txt)
                lits |= set(nl)
            else:
                skipped.append(name)
        except Unsupported as e:
            skipped.append('%s (%s)' % (name, e))
    lib = open(lib_unit_path).read()
    cut = lib.rindex('} // verus!')
    def diffpos(a, b):
        for i in range(min(len(a), len(b))):
            if a[i] != b[i]:
                return i
        return None
    reveal = 'pub proof fn reveal_strlits()\n    ensures\n' + ''.join(
        '        %s.len() == %d,\n' % (strlit(n), len(n)) for n in sorted(lits)) + ''.join(
        '        %s != %s,\n' % (strlit(a), strlit(b)) for a in sorted(lits) for b in sorted(lits) if a < b) + '{\n' + ''.join(
        '    reveal_strlit("%s");\n' % n for n in sorted(lits)) + ''.join(
        '    assert(%s[%d] != %s[%d]);\n' % (strlit(a), diffpos(a, b), strlit(b), diffpos(a, b))
        for a in sorted(lits) for b in sorted(lits) if a < b and len(a) == len(b) and diffpos(a, b) is not None) + ''.join(
        '    assert(%s.len() != %s.len());\n' % (strlit(a), strlit(b))
        for a in sorted(lits) for b in sorted(lits) if a < b and len(a) != len(b)) + '}\n'
    text = lib[:cut] + '\n// ======================================================================= CATALOGUE (tools/catgen.py)\n' + reveal + '\n' + '\n'.join(parts) + '\n' + lib[cut:]
    open(out_path, 'w').write(text)
    return dict(entries=[n for n in decls if n not in [s.split(' ')[0] for s in skipped]], skipped=skipped, statics=dict(STATICS))


def index(path):
    """metadata (id, tags, line range) of the generated catalogue functions"""
    text = open(path).read()
    res = []
    for m in re.finditer(r'^//#fn id=(catalogue::\S+) tags=(\S*) mode=(\w+)(?: lost=(\S+))?$', text, re.M):
        st = m.end() + 1
        ob = None
        dp = 0
        for pos, ch in rx.scan_code(text, st):
            if ch in '([':
                dp += 1
            elif ch in ')]':
                dp -= 1
            elif ch == '{' and dp == 0:
                ob = pos
                break
        if ob is None:
            continue
        cb = rx.match_close(text, ob)
        res.append(dict(id=m.group(1), tags=[t for t in m.group(2).split(',') if t], mode=m.group(3),
                        out_lines=[rx.line_of(text, st), rx.line_of(text, cb)], rules=['CATALOGUE'], contract=[],
                        src_file='catalogue expansion', src_lines=[], lost_hints=(m.group(4).split(';') if m.group(4) else [])))
    return res


if __name__ == '__main__':
    r = generate('/repo', os.path.join(ROOT, 'build'), os.path.join(ROOT, 'build', 'desert.rs'), os.path.join(ROOT, 'build', 'catalogue.rs'))
    print(r)
