#!/usr/bin/env python3
"""regenerate MANIFEST.json from specs/properties.json (claimed) and specs/not_applicable.json"""
import json, os
R = os.path.join(os.path.dirname(os.path.abspath(__file__)), '..')
props = json.load(open(os.path.join(R, 'specs/properties.json')))
na = json.load(open(os.path.join(R, 'specs/not_applicable.json')))
all_ids = ['C%02d' % i for i in range(1, 20)]
m = {"version": 1, "setup_cmd": "./setup.sh",
     "hooks": {"guard": "desert_verif",
               "enable": "none needed: contracts live in /verif/specs and are spliced into a mechanically extracted copy of the real functions on every run; /repo carries no hooks",
               "baseline_off_cmd": "cd /repo && cargo test --workspace --no-fail-fast --offline",
               "source_commits": [], "add_only": True},
     "engines": [
         {"name": "verus-extract", "path": "tools/rx.py + specs/", "serves_properties": sorted(props),
          "kind_free_text": "contract-based deductive verification (Verus) of functions extracted verbatim from /repo on every run"},
         {"name": "kani-real-crate", "path": "kani/", "serves_properties": sorted(p for p in props if props[p].get('kani') or props[p].get('bounded')),
          "kind_free_text": "Kani/CBMC harnesses on the real compiled crate: complete for loop-free bit-level code; counterexample generator with native replay; bounded stand-ins labelled bounded"}],
     "checks": [], "not_applicable": [],
     "notes": "exit 2 = UNDECIDED (lost anchor / tool limit), never an alarm. known_findings.txt lists genuine defects recorded instead of repaired and the fix: commits."}
for pid in sorted(props):
    P = props[pid]
    m["checks"].append({
        "property_id": pid, "quick_cmd": "./check %s --tier quick" % pid,
        "thorough_cmd": "./check %s --tier thorough" % pid,
        "evidence_file": "/verif/evidence/%s.json" % pid,
        "replay_cmd_template": "./check %s --replay {path}" % pid, "engine": "verus-extract",
        "level_claimed": {"category": P.get("level", "proof"), "text": P["explanation"], "design_ref": "5/" + pid},
        "level_note": P.get("level_note", "Trusted: Verus/Z3, vstd specs, the extraction rules E1-E11, Kani/CBMC; every assumed contract (external_body / assume) is re-scanned and listed in the evidence file on every run."),
        "technique": P.get("technique", "contract-based deductive verification: Verus contracts on mechanically extracted real code + complete Kani harnesses on the real crate")})
for pid in all_ids:
    if pid not in props:
        m["not_applicable"].append({"property_id": pid, "reason": na.get(pid, "not yet claimed: contracts for this property are still being built (DESIGN.md section 8 build order)")})
json.dump(m, open(os.path.join(R, 'MANIFEST.json'), 'w'), indent=1)
print('claimed', sorted(props))
