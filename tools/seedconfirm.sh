#!/bin/bash
# confirm a seeded change in its scratch worktree: existing suite passes with the patch,
# the demo fails with it and passes without it.   usage: seedconfirm.sh <Cxx> <demo-relpath> <cargo -p pkg> <test name>
id=$1; demo=$2; pkg=$3; tname=$4
wt=/tmp/wt_$id; export CARGO_TARGET_DIR=$wt/target
cd $wt || exit 2
git checkout -q -- . ; git apply /tmp/seed_$id/patch.diff || { echo "APPLY-FAILED"; exit 2; }
mkdir -p $(dirname $demo); cp /tmp/seed_$id/demo.rs $demo
mv $demo /tmp/seed_$id/demo_aside.rs
echo "== existing suite WITH patch"; cargo test --workspace --offline --no-fail-fast 2>&1 | grep -E "^test result|FAILED|panicked at" | sort | uniq -c
mv /tmp/seed_$id/demo_aside.rs $demo
echo "== demo WITH patch"; timeout 600 cargo test -p $pkg --test $tname --offline 2>&1 | grep -E "^test result|^test .* (FAILED|ok)$" | head -12
git apply -R /tmp/seed_$id/patch.diff
echo "== demo WITHOUT patch"; timeout 600 cargo test -p $pkg --test $tname --offline 2>&1 | grep -E "^test result" | head -3
rm -f $demo
