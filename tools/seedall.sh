#!/bin/bash
# usage: seedall.sh [seed ids...]
# re-run every (or the named) seeded change against the checks named in its meta.json ("ran"); one line per run
cd /verif
for d in seeded/*/; do
  id=$(basename $d)
  if [ $# -gt 0 ] && ! echo " $* " | grep -q " $id "; then continue; fi
  cmd=$(python3 -c "import json;print(json.load(open('$d/meta.json'))['ran'])")
  props=$(echo "$cmd" | sed 's/.*seeded\/[A-Za-z0-9_]* //')
  tools/seedrun.sh seeded/$id $props 2>&1 | grep -E "^== |^VIOLATION|^UNDECIDED|^OK|APPLY" | cut -c1-200 | awk -v id=$id '/^== /{print} /^VIOLATION/{v++} /^UNDECIDED/{u++} /^OK/{o++} /APPLY/{print} END{print "   -> " id ": violations=" v+0 " undecided=" u+0 " ok=" o+0}'
done
