"""enum part of catgen (imported by catgen.py)"""
import re

import rx  # noqa


def pat_of(X, v):
    if v['shape'] == 'unit':
        return '%s::%s' % (X, v['name'])
    names = ', '.join(f['name'] for f in v['fields'])
    if v['shape'] == 'named':
        return '%s::%s { %s }' % (X, v['name'], names)
    return '%s::%s(%s)' % (X, v['name'], names)


def wild_of(X, v):
    if v['shape'] == 'unit':
        return '%s::%s' % (X, v['name'])
    if v['shape'] == 'named':
        return '%s::%s { .. }' % (X, v['name'])
    return '%s::%s(..)' % (X, v['name'])


SER_TMPL = """impl %(X)s {
    /// position of the constructor in declaration order (identifier order under sorted_constructors)
    pub open spec fn ctor_index(&self) -> int { match self { %(idx)s } }
}

impl BinarySerializer for %(X)s {
    open spec fn ser_ok(&self, t: Tbl) -> bool { match self { %(ok)s } }
    open spec fn enc(&self, t: Tbl) -> Seq<u8> { match self { %(enc)s } }
    open spec fn tbl_after(&self, t: Tbl) -> Tbl { match self { %(tbl)s } }
    open spec fn vwf(&self) -> bool { match self { %(vwf)s } }

//#fn id=catalogue::%(X)s::serialize tags=C02,C13,C14,C17,C04 mode=body
#[verifier::rlimit(100)]
fn serialize<Output: BinaryOutput>(&self, context: &mut SerializationContext<Output>) -> (r: Result<()>)
%(body)s
}
"""

DE_TMPL = """impl %(X)s {
%(case_fns)s
//#fn id=catalogue::%(X)s::deserialize tags=C02,C13,C14,C05,C06,C07 mode=body
#[verifier::rlimit(300)]
pub fn deserialize(context: &mut DeserializationContext<'_>) -> (r: Result<Self>)
    requires
        old(context).iwf(),
    ensures
        final(context).iwf(),
        // headerless enum record: version byte 0, then the constructor index as unsigned varint
        old(context).remaining().len() >= 1 && old(context).remaining()[0] == 0 ==> (match unleb_res(old(context).remaining().skip(1)) {
            Err(_) => r is Err,
            // unknown or transient index: an error, never a panic
            Ok(i) => ((%(bad)s) ==> r is Err)
                // the constructor is selected by the stored index alone
                && (r is Ok ==> r->Ok_0.ctor_index() == i)%(cases)s,
        }),
        // enum record with evolution header (stored version >= 1)
        old(context).remaining().len() >= 1 && old(context).remaining()[0] >= 1 ==> (match adt_header(old(context).remaining().skip(1), old(context).state.val().strs(), old(context).remaining()[0] as nat + 1) {
            None => r is Err,
            Some(h) => match unleb_res(%(w0)s) {
                Err(_) => r is Err,
                Ok(i) => ((%(bad)s) ==> r is Err)
                    && (r is Ok ==> r->Ok_0.ctor_index() == i
                            && final(context).remaining() =~= old(context).remaining().skip(1 + h.total as int))%(hcases)s,
            },
        }),
%(body)s
}
"""


ENUM_LEVEL_CASES = True


def gen_enum_v0(d, expanded, H):
    """enum whose cases are all version-0 records.  H = helper functions of catgen"""
    X = d['name']
    static = ('%s_metadata' % X).upper()
    out = []
    vtxt = []
    for v in d['variants']:
        if v['shape'] == 'unit':
            vtxt.append('    %s,' % v['name'])
        elif v['shape'] == 'named':
            vtxt.append('    %s { %s },' % (v['name'], ', '.join('%s: %s' % (f['name'], f['ty']) for f in v['fields'])))
        else:
            vtxt.append('    %s(%s),' % (v['name'], ', '.join(f['ty'] for f in v['fields'])))
    out.append('pub enum %s {\n%s\n}\n' % (X, '\n'.join(vtxt)))
    top = H['metadata_steps'](expanded, static)
    out.append(H['gen_metadata'](static, top))
    lits = set(n for _, n in top if n)
    K = len(top)
    if K > 1:
        # the enum itself has evolution steps: a chunked record whose chunk 0 holds the index and the case
        import catgen_evolved
        topcore = catgen_evolved.Core([], top, lambda f: f['name'], H['strlit'])

    def top_terms(idx, ok, enc, tn, t0):
        """(ser_ok, enc, tbl_after) of the whole enum record for one case"""
        if K == 1:
            return ok, 'seq![0u8] + (leb(%d) + (%s))' % (idx, enc), tn
        chunks = ['leb(%d) + (%s)' % (idx, enc)] + ['Seq::<u8>::empty()'] * (K - 1)
        hdr = 'enc_hdr(seq![%s], seq_lens(seq![%s]), Map::<Seq<char>, FieldPosition>::empty(), %s, %s, %d)' % (
            topcore.evos, ', '.join(chunks), topcore.removed, tn, K)
        return ('(%s) && (%s) is Some' % (ok, hdr),
                '(match %s { Some((hb, t2)) => seq![%du8] + (hb + concat_chunks(seq![%s], %d)), None => Seq::<u8>::empty() })' % (hdr, K - 1, ', '.join(chunks), K),
                '(match %s { Some((hb, t2)) => t2, None => %s })' % (hdr, t0))
    for v in d['variants']:
        # per-case metadata static, where the expansion has one (a case that gets none and still
        # names it fails to resolve in Verus; a case that needs none is verified without it)
        cs = ('%s_%s_metadata' % (X, v['name'])).upper()
        try:
            out.append(H['gen_metadata'](cs, H['metadata_steps'](expanded, cs)))
        except rx.Lost:
            pass
        for f in v['fields']:
            lits.add(f['name'])
    n = len(d['variants'])
    live = H['live']

    cores = {}
    for v in d['variants']:
        if v.get('evolution') and not v['transient']:
            import catgen_evolved
            cs = ('%s_%s_metadata' % (X, v['name'])).upper()
            cores[v['name']] = catgen_evolved.Core(live(v['fields']), H['metadata_steps'](expanded, cs), lambda f: f['name'], H['strlit'])
            lits.update(n for _, n in cores[v['name']].steps if n)

    def case_terms(v, t0):
        if v['name'] in cores:
            # a case with evolution steps: version byte, header, chunks (like a struct with steps)
            c = cores[v['name']]
            hdr = c.header(t0)
            ok = '(%s) && (%s) is Some' % (c.ok(t0), hdr)
            enc = '(match %s { Some((hb, t2)) => seq![%du8] + (hb + concat_chunks(seq![%s], %d)), None => Seq::<u8>::empty() })' % (
                hdr, c.V, ', '.join(c.chunks(t0)), c.k)
            tn = '(match %s { Some((hb, t2)) => t2, None => %s })' % (hdr, t0)
            return ok, enc, tn, c.vwf
        lf = live(v['fields'])
        ts = [t0]
        for f in lf:
            ts.append('%s.tbl_after(%s)' % (f['name'], ts[-1]))
        ok = ' && '.join('%s.ser_ok(%s)' % (f['name'], ts[i]) for i, f in enumerate(lf)) or 'true'
        enc = ' + '.join(['seq![0u8]'] + ['%s.enc(%s)' % (f['name'], ts[i]) for i, f in enumerate(lf)])
        vwf = ' && '.join('%s.vwf()' % f['name'] for f in lf) or 'true'
        return ok, enc, ts[-1], vwf
    arms_ok, arms_enc, arms_tbl, arms_vwf, arms_idx = [], [], [], [], []
    for v in d['variants']:
        pat = pat_of(X, v)
        if v['transient']:
            arms_ok.append('%s => false' % pat)
            arms_enc.append('%s => Seq::<u8>::empty()' % pat)
            arms_tbl.append('%s => t' % pat)
            arms_vwf.append('%s => true' % pat)
        else:
            ok, enc, tn, vwf = case_terms(v, 't')
            # version byte of the enum record, constructor index (unsigned varint), the case's own record
            ok, enc, tn = top_terms(v['idx'], ok, enc, tn, 't')
            arms_ok.append('%s => %s' % (pat, ok))
            arms_enc.append('%s => %s' % (pat, enc))
            arms_tbl.append('%s => %s' % (pat, tn))
            arms_vwf.append('%s => %s' % (pat, vwf))
        arms_idx.append('%s => %dint' % (wild_of(X, v), v['idx']))
    # ---- serializer body: closures get their contract (E12)
    b = H['norm_paths'](H['impl_fn'](expanded, 'BinarySerializer', X))
    for v in d['variants']:
        ok, enc, tn, vwf = case_terms(v, 'old(context).state.strs()')
        # the arm of this variant, then its write_constructor(<any index literal>, |context| {
        arm = re.compile(r'%s::%s\b[^=]*=>\s*\{\s*serializer\.write_constructor\(\d+usize as u32,\s*\|context\|(\s*)\{' % (re.escape(X), re.escape(v['name'])))
        mm = arm.search(b)
        if v['transient']:
            if not mm:
                continue
            # a transient constructor that nevertheless gets a writer: the closure is given the
            # weakest contract, the arm is then judged by the postcondition of `serialize`
            ann = ('|context: &mut SerializationContext<Output>| -> (cr: Result<()>)\n'
                   '    requires old(context).owf(),\n'
                   '    ensures final(context).owf(), cr is Ok ==> final(context).orest().lower == old(context).orest().lower,\n'
                   '{')
            seg = b[mm.start():mm.end()]
            b = b[:mm.start()] + re.sub(r'\|context\|(\s*)\{$', lambda m2: ann, seg) + b[mm.end():]
            continue
        if not mm:
            raise rx.Lost('serialize of %s: match arm with write_constructor for variant %s not found' % (X, v['name']))
        ann = ('|context: &mut SerializationContext<Output>| -> (cr: Result<()>)\n'
               '    requires old(context).owf(), %s,\n'
               '    ensures final(context).owf(), cr is Ok <==> (%s), cr is Ok ==> swrote(&*old(context), &*final(context), %s, %s),\n'
               '{') % (vwf, ok, enc, tn)
        seg = b[mm.start():mm.end()]
        seg2 = re.sub(r'\|context\|(\s*)\{$', lambda m2: ann, seg)
        tail = b[mm.end():]
        if v['name'] in cores:
            import catgen_evolved
            ob = mm.end() - 1
            cb = rx.match_close(b, ob)
            body = catgen_evolved.annotate_writer(b[ob:cb + 1], '%s::%s' % (X, v['name']), cores[v['name']], 'old(context)',
                                                  re.compile(r'\n(\s*)let mut serializer =\s*AdtSerializer::new\([^;]*;\n'))
            tail = body[1:] + b[cb + 1:]
        b = b[:mm.start()] + seg2 + tail
        if K > 1:
            # after this arm's write_constructor(..)?; -- chunk 0 is index + case, the stream only had its tables changed
            ob = b.index('{', mm.start() + len(seg2) - 1)
            cb = rx.match_close(b, ob)
            stmt_end = b.index(';', cb) + 1
            chunks = ['leb(%d) + (%s)' % (v['idx'], enc)] + ['Seq::<u8>::empty()'] * (K - 1)
            hint = '''
                proof {
                    assert(serializer.chunk(0) =~= %(c0)s);
%(rest)s                    lemma_swrote_intro(s0.ctx(), serializer.ctx(), Seq::<u8>::empty(), %(tn)s);
                    lemma_swrote_trans(old(context), s0.ctx(), serializer.ctx(), seq![%(V)du8], Seq::<u8>::empty(), old(context).state.strs(), %(tn)s);
                    assert(seq![%(V)du8] + Seq::<u8>::empty() =~= seq![%(V)du8]);
                    assert(buf_seqs(serializer.buffers@) =~= seq![%(chunks)s]);
                    assert(seq_lens(buf_seqs(serializer.buffers@)) =~= seq_lens(seq![%(chunks)s]));
                }''' % dict(c0=chunks[0], tn=tn, V=K - 1, chunks=', '.join(chunks), rest=''.join('                    assert(serializer.buffers@[%d] == s0.buffers@[%d] && s0.chunk(%d) =~= Seq::<u8>::empty());\n' % (j, j, j) for j in range(1, K)))
            b = b[:stmt_end] + hint + b[stmt_end:]
    if K > 1:
        m0 = re.search(r'\n(\s*)let mut serializer =\s*AdtSerializer::new\([^;]*;\n', b)
        if not m0:
            raise rx.Lost('serialize of %s: statement creating the serializer not found' % X)
        b = b[:m0.end()] + '        let ghost s0 = serializer;\n' + b[m0.end():]
        b = b.replace('{', '{\n        broadcast use {lemma_swrote_all_b};', 1)
    b = b.replace('{', '{\n        broadcast use {lemma_wf_v0_b, lemma_swrote_trans_b, lemma_swrote_facts_b, lemma_swrote_wrote_b};\n        proof { reveal_strlits(); }', 1)
    out.append(SER_TMPL % dict(X=X, idx=', '.join(arms_idx), ok=', '.join(arms_ok), enc=', '.join(arms_enc),
                               tbl=', '.join(arms_tbl), vwf=', '.join(arms_vwf), body=b))
    # ---- deserializer: emitted as an inherent fn (E9-like) with the C13 contract
    import catgen_evolved
    db = H['norm_paths'](H['impl_fn'](expanded, 'BinaryDeserializer', X))
    ann_t = ("|_c: &mut DeserializationContext<'_>| -> (cr: Result<Self>)\n"
             '    requires old(_c).iwf(),\n    ensures final(_c).iwf(), final(_c).region_stack@.len() >= old(_c).region_stack@.len(), cr is Err,\n{')
    db = re.sub(r'(deserializer\.read_constructor\(\d+usize as u32,\s*)\|_\|(\s*)\{', lambda m: m.group(1) + ann_t, db)
    # per case: the field-level reader spec generated from the declaration (both stored forms, all
    # chunks, declared defaults), where the declared defaults are literals the spec can name
    by_idx = {v['idx']: v for v in d['variants']}
    case_specs = {}
    gv_arms = {}
    for v in d['variants']:
        if v['transient']:
            continue
        cs = ('%s_%s_metadata' % (X, v['name'])).upper()
        try:
            vsteps = H['metadata_steps'](expanded, cs)
        except rx.Lost:
            continue
        core = catgen_evolved.Core(live(v['fields']), vsteps, lambda f: f['name'], H['strlit'])
        rsp = catgen_evolved.reader_spec('%s_%s' % (X, v['name']), 'case %s::%s' % (X, v['name']), v['evolution'], vsteps, core, H['strlit'])
        if rsp is None:
            continue
        G, spec_txt = rsp
        lf = live(v['fields'])
        gvt = '(' + ', '.join('%s.gv()' % f['name'] for f in lf) + (',' if len(lf) == 1 else '') + ')'
        out.append(spec_txt)
        out.append('impl %s {\n    /// ghost value of the fields of a %s (arbitrary for other constructors)\n    pub open spec fn gv_%s(&self) -> %s { match self { %s => %s, _ => arbitrary() } }\n}\n'
                   % (X, v['name'], v['name'], G, pat_of(X, v), gvt))
        trans = ''.join(' && (match cr->Ok_0 { %s => %s == (%s), _ => true })' % (pat_of(X, v), f['name'], f['transient'])
                        for f in v['fields'] if f['transient'] is not None)
        case_specs[v['idx']] = dict(N='%s_%s' % (X, v['name']), V=v['name'], k=core.k, trans=trans)

    def ann_for(idx):
        base = ("|context: &mut DeserializationContext<'_>| -> (cr: Result<Self>)\n"
                '    requires old(context).iwf(),\n'
                '    ensures final(context).iwf(), final(context).region_stack@.len() >= old(context).region_stack@.len(),\n'
                '        cr is Ok ==> final(context).frame_eq(&*old(context)) && final(context).current.pos >= old(context).current.pos,\n'
                '        cr is Ok ==> cr->Ok_0.ctor_index() == %d%s,\n' % (idx, case_specs[idx]['trans'] if idx in case_specs else ''))
        if idx in case_specs:
            c = case_specs[idx]
            base += ('        // the case decoder is the declaration\'s reader, on exactly its own bytes\n'
                     '        match dec_%(N)s(old(context).remaining(), old(context).state.val().strs()) {\n'
                     '            Dec::Ok { v, n, t } => cr is Ok && cr->Ok_0.gv_%(V)s() == v && n <= old(context).remaining().len()\n'
                     '                && final(context).remaining() =~= old(context).remaining().skip(n as int) && final(context).state.val().strs() == t,\n'
                     '            Dec::Err => cr is Err,\n'
                     '        },\n') % c
        return base + '{'
    pat = re.compile(r'(deserializer\.read_constructor\((\d+)usize as u32,\s*)\|context\|(\s*)\{')
    pos = 0
    occ = 0
    case_fns = []
    while True:
        m = pat.search(db, pos)
        if not m:
            break
        idx = int(m.group(2))
        ob = m.end() - 1
        cb = rx.match_close(db, ob)
        body = db[ob:cb + 1]
        head = m.group(1) + ann_for(idx)
        if idx in case_specs:
            # E16: the (non-capturing) case closure is outlined into a function with the same body
            # and the same contract, verified on its own; the closure just calls it
            occ += 1
            fname = 'de_case_%d_%d' % (idx, occ)
            body, lost = catgen_evolved.annotate_reader(body, '%s case %d' % (X, idx), case_specs[idx]['k'])
            body = body.replace('{', '{\n        broadcast use {lemma_rf_step, lemma_rof_step};\n        proof { reveal_strlits(); reveal(dec_%s); }' % case_specs[idx]['N'], 1)
            contract = ann_for(idx)
            contract = contract[contract.index('\n') + 1:].rstrip('{')
            case_fns.append('//#fn id=catalogue::%s::deserialize::case%d_%d tags=C02,C03,C13,C14,C05,C06,C07 mode=body%s\n#[verifier::rlimit(200)]\nfn %s(context: &mut DeserializationContext<\'_>) -> (cr: Result<Self>)\n%s%s\n'
                            % (X, idx, occ, (' lost=' + ';'.join(lost)) if lost else '', fname, contract, body))
            body = '{ Self::%s(context) }' % fname
        db = db[:m.start()] + head + body[1:] + db[cb + 1:]
        pos = m.start() + len(head) + len(body) - 1
    db = db.replace('{', '{\n        broadcast use {lemma_rf_any, lemma_rof_any};\n        proof { reveal_strlits(); }', 1)
    trans_idx = [v['idx'] for v in d['variants'] if v['transient']]
    bad = ' || '.join(['i >= %d' % n] + ['i == %d' % t for t in trans_idx])
    # enum level, headerless stored form: the selected case's reader decides value, consumption, table
    rest = 'old(context).remaining().skip(1).skip(unleb_used(old(context).remaining().skip(1)) as int)'
    cases = ''.join(
        '\n                && (i == %d ==> match dec_%s(%s, old(context).state.val().strs()) {\n'
        '                        Dec::Ok { v, n, t } => r is Ok && r->Ok_0.gv_%s() == v && final(context).remaining() =~= %s.skip(n as int) && final(context).state.val().strs() == t,\n'
        '                        Dec::Err => r is Err,\n                    })' % (idx, c['N'], rest, c['V'], rest)
        for idx, c in sorted(case_specs.items())) if ENUM_LEVEL_CASES else ''
    # stored form with a header (written by a definition of the enum that has evolution steps):
    # index and case are the head of chunk 0, the stream ends up behind all chunks
    w0 = 'old(context).remaining().skip(1).subrange(h.wins[0].0 as int, h.wins[0].1 as int)'
    rest1 = '%s.skip(unleb_used(%s) as int)' % (w0, w0)
    hcases = ''.join(
        '\n                    && (i == %d ==> match dec_%s(%s, h.t) {\n'
        '                            Dec::Ok { v, n, t } => r is Ok && r->Ok_0.gv_%s() == v && final(context).state.val().strs() == t,\n'
        '                            Dec::Err => r is Err,\n                        })' % (idx, c['N'], rest1, c['V'])
        for idx, c in sorted(case_specs.items())) if ENUM_LEVEL_CASES else ''
    out.append(DE_TMPL % dict(X=X, bad=bad, body=db, cases=cases, hcases=hcases, w0=w0, case_fns='\n'.join(case_fns)))
    return '\n'.join(out), sorted(lits)
