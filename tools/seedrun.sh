#!/bin/bash
# apply a seeded change to /repo, run the given checks, undo it.  usage: seedrun.sh <seed dir> <Cxx>...
seed=$1; shift
cd /verif
rm -rf build/evidence.keep; cp -r evidence build/evidence.keep
git -C /repo diff --quiet || { echo "/repo has uncommitted changes"; exit 2; }
git -C /repo apply $(realpath $seed)/patch.diff || { echo APPLY-FAILED; exit 2; }
for p in "$@"; do
  case $p in C[0-9][0-9]) ;; *) continue;; esac
  ./check $p > build/seedrun_$p.out 2>&1; rc=$?
  echo "== $(basename $seed) vs $p: rc=$rc"; grep -E "^VIOLATION|^  failed obligation|^UNDECIDED|^OK|^KNOWN" build/seedrun_$p.out | cut -c1-260 | head -8
done
git -C /repo checkout -- .
rm -rf evidence; cp -r build/evidence.keep evidence   # evidence of a patched tree is never kept
