//! metaprobe: concrete probe of the ASSUMED contract of `AdtMetadata::new` (DESIGN 2.4).
//! stdin: one line per metadata static, `NAME kind:name,kind:name,...` (the steps the derive
//! macro registers for a catalogue declaration); stdout: `NAME <Debug of the real AdtMetadata>`
//! (or `NAME PANIC`).  ./check compares each line with what the assumed contract says.
use desert_core::adt::AdtMetadata;
use desert_core::Evolution;
use std::io::BufRead;

fn main() {
    let stdin = std::io::stdin();
    for line in stdin.lock().lines() {
        let line = line.unwrap();
        let line = line.trim();
        if line.is_empty() {
            continue;
        }
        let (name, rest) = match line.split_once(' ') {
            Some(x) => x,
            None => (line, ""),
        };
        let mut steps = Vec::new();
        for part in rest.split(',').filter(|p| !p.is_empty()) {
            let (kind, field) = part.split_once(':').unwrap_or((part, ""));
            let field = field.to_string();
            steps.push(match kind {
                "InitialVersion" => Evolution::InitialVersion,
                "FieldAdded" => Evolution::FieldAdded { name: field },
                "FieldMadeOptional" => Evolution::FieldMadeOptional { name: field },
                "FieldRemoved" => Evolution::FieldRemoved { name: field },
                "FieldMadeTransient" => Evolution::FieldMadeTransient { name: field },
                other => {
                    eprintln!("unknown step kind {}", other);
                    std::process::exit(2);
                }
            });
        }
        match std::panic::catch_unwind(move || format!("{:?}", AdtMetadata::new(steps))) {
            Ok(s) => println!("{} {}", name, s),
            Err(_) => println!("{} PANIC", name),
        }
    }
}
