//! replay <scenario> <hex bytes>: run one scenario natively against /repo's real code.
use desert_kani::scenarios::lookup;

fn main() {
    let args: Vec<String> = std::env::args().collect();
    if args.len() < 3 {
        eprintln!("usage: replay <scenario> <hex>");
        std::process::exit(2);
    }
    let (f, _n, desc) = match lookup(&args[1]) {
        Some(x) => x,
        None => {
            eprintln!("unknown scenario {}", args[1]);
            std::process::exit(2);
        }
    };
    let hex = args[2].trim();
    let mut bytes = Vec::new();
    let hs: Vec<char> = hex.chars().filter(|c| c.is_ascii_hexdigit()).collect();
    for p in hs.chunks(2) {
        let s: String = p.iter().collect();
        bytes.push(u8::from_str_radix(&s, 16).unwrap());
    }
    let r = std::panic::catch_unwind(|| f(&bytes));
    match r {
        Ok(0) => {
            println!("REPLAY scenario={} input={} result=holds ({})", args[1], hex, desc);
        }
        Ok(code) => {
            println!("REPLAY scenario={} input={} result=FAILS clause={} ({})", args[1], hex, code, desc);
            std::process::exit(1);
        }
        Err(_) => {
            println!("REPLAY scenario={} input={} result=PANIC ({})", args[1], hex, desc);
            std::process::exit(1);
        }
    }
}
