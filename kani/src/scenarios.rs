//! Scenarios: each returns 0 if the contract clause(s) hold on this input, else a clause id.
//! Reference arithmetic here is written independently of the library (shifts and masks on
//! u128), so agreement is not circular.

extern crate bytes as desert_core_bytes;
use desert_core::{
    BinaryDeserializer, BinaryInput, BinaryOutput, DeserializationContext, Error, OwnedInput,
    SliceInput,
};

/// Recording sink with a fixed buffer: no allocation, so CBMC stays small.
pub struct Rec {
    pub buf: [u8; 40],
    pub n: usize,
}

impl Rec {
    pub fn new() -> Self {
        Rec { buf: [0; 40], n: 0 }
    }
}

impl BinaryOutput for Rec {
    fn write_u8(&mut self, value: u8) {
        if self.n < 40 {
            self.buf[self.n] = value;
        }
        self.n += 1;
    }
    fn write_bytes(&mut self, bytes: &[u8]) {
        let mut i = 0;
        while i < bytes.len() {
            self.write_u8(bytes[i]);
            i += 1;
        }
    }
}

/// big-endian value of the first n bytes (reference)
pub fn ref_be(b: &[u8], n: usize) -> u128 {
    let mut v: u128 = 0;
    let mut i = 0;
    while i < n {
        v = (v << 8) | (b[i] as u128);
        i += 1;
    }
    v
}

/// reference LEB128 writer; returns number of bytes
pub fn ref_leb(mut v: u32, out: &mut [u8; 5]) -> usize {
    let mut n = 0;
    loop {
        let g = (v % 128) as u8;
        v /= 128;
        if v == 0 {
            out[n] = g;
            return n + 1;
        }
        out[n] = g + 128;
        n += 1;
    }
}

pub fn ref_zz(i: i32) -> u32 {
    let w = i as i64;
    (if w >= 0 { 2 * w } else { -2 * w - 1 }) as u32
}

fn is_eof<T>(r: &Result<T, Error>) -> bool {
    matches!(r, Err(Error::InputEndedUnexpectedly))
}

// ------------------------------------------------------------------ fixed-width writers (E8)
macro_rules! sc_write {
    ($name:ident, $method:ident, $ty:ty, $n:expr, $conv:expr) => {
        /// write_<ty>(v) appends exactly the big-endian bytes of v (contract WROTE(be(N, v)))
        pub fn $name(input: &[u8]) -> u32 {
            if input.len() < $n {
                return 0;
            }
            let raw = ref_be(input, $n);
            let v: $ty = $conv(raw);
            let mut out = Rec::new();
            out.write_u8(0xAB); // pre-existing content must be kept
            out.$method(v);
            if out.n != 1 + $n {
                return 1;
            }
            if out.buf[0] != 0xAB {
                return 2;
            }
            let mut i = 0;
            while i < $n {
                if out.buf[1 + i] != input[i] {
                    return 3;
                }
                i += 1;
            }
            0
        }
    };
}

sc_write!(sc_write_u16, write_u16, u16, 2, |r: u128| r as u16);
sc_write!(sc_write_i16, write_i16, i16, 2, |r: u128| r as u16 as i16);
sc_write!(sc_write_u32, write_u32, u32, 4, |r: u128| r as u32);
sc_write!(sc_write_i32, write_i32, i32, 4, |r: u128| r as u32 as i32);
sc_write!(sc_write_u64, write_u64, u64, 8, |r: u128| r as u64);
sc_write!(sc_write_i64, write_i64, i64, 8, |r: u128| r as u64 as i64);
sc_write!(sc_write_u128, write_u128, u128, 16, |r: u128| r);
sc_write!(sc_write_i128, write_i128, i128, 16, |r: u128| r as i128);
sc_write!(sc_write_f32, write_f32, f32, 4, |r: u128| f32::from_bits(r as u32));
sc_write!(sc_write_f64, write_f64, f64, 8, |r: u128| f64::from_bits(r as u64));

// ------------------------------------------------------------------ fixed-width readers (E8)
// Contract (specs/unit_input.rs.in): fewer than N bytes left => Err(InputEndedUnexpectedly),
// cursor unmoved; otherwise Ok(big-endian value of the next N bytes), cursor moved by N.
// The cursor is observed through a following read_u8.
macro_rules! sc_read_on {
    ($src:expr, $input:expr, $method:ident, $n:expr, $bits:expr) => {{
        let mut s = $src;
        let r = s.$method();
        if $input.len() < $n {
            if !is_eof(&r) {
                return 1;
            }
            // cursor unmoved: next byte is input[0] (or EOF if empty)
            let nx = s.read_u8();
            if $input.len() == 0 {
                if !is_eof(&nx) {
                    return 2;
                }
            } else {
                match nx {
                    Ok(b) if b == $input[0] => {}
                    _ => return 2,
                }
            }
        } else {
            match r {
                Ok(v) => {
                    if $bits(v) != ref_be($input, $n) {
                        return 3;
                    }
                }
                Err(_) => return 4,
            }
            let nx = s.read_u8();
            if $input.len() == $n {
                if !is_eof(&nx) {
                    return 5;
                }
            } else {
                match nx {
                    Ok(b) if b == $input[$n] => {}
                    _ => return 5,
                }
            }
        }
    }};
}

macro_rules! sc_read {
    ($name:ident, $method:ident, $n:expr, $bits:expr) => {
        pub fn $name(input: &[u8]) -> u32 {
            sc_read_on!(SliceInput::new(input), input, $method, $n, $bits);
            sc_read_on!(std::mem::ManuallyDrop::new(DeserializationContext::new(input)), input, $method, $n, $bits);
            0
        }
    };
}

sc_read!(sc_read_u16, read_u16, 2, |v: u16| v as u128);
sc_read!(sc_read_i16, read_i16, 2, |v: i16| v as u16 as u128);
sc_read!(sc_read_u32, read_u32, 4, |v: u32| v as u128);
sc_read!(sc_read_i32, read_i32, 4, |v: i32| v as u32 as u128);
sc_read!(sc_read_u64, read_u64, 8, |v: u64| v as u128);
sc_read!(sc_read_i64, read_i64, 8, |v: i64| v as u64 as u128);
sc_read!(sc_read_u128, read_u128, 16, |v: u128| v);
sc_read!(sc_read_i128, read_i128, 16, |v: i128| v as u128);
sc_read!(sc_read_f32, read_f32, 4, |v: f32| v.to_bits() as u128);
sc_read!(sc_read_f64, read_f64, 8, |v: f64| v.to_bits() as u128);

/// same contract through the heap-owning source (separate: Vec allocation is dearer in CBMC)
pub fn sc_read_owned(input: &[u8]) -> u32 {
    sc_read_on!(OwnedInput::new(input.to_vec()), input, read_u16, 2, |v: u16| v as u128);
    sc_read_on!(OwnedInput::new(input.to_vec()), input, read_u64, 8, |v: u64| v as u128);
    0
}

// ------------------------------------------------------------------ varints (C11), twin of
// the Verus contracts of write_var_u32 / write_var_i32 / read_var_u32 / read_var_i32
pub fn sc_var_u32(input: &[u8]) -> u32 {
    if input.len() < 4 {
        return 0;
    }
    let v = ref_be(input, 4) as u32;
    let mut exp = [0u8; 5];
    let n = ref_leb(v, &mut exp);
    let mut out = Rec::new();
    out.write_var_u32(v);
    if out.n != n {
        return 1;
    }
    let mut i = 0;
    while i < 5 {
        if i < n && out.buf[i] != exp[i] {
            return 2;
        }
        i += 1;
    }
    // minimal length and continuation bits
    let bits = 32 - v.leading_zeros() as usize;
    let want = if bits == 0 { 1 } else { (bits + 6) / 7 };
    if n != want {
        return 3;
    }
    let mut i = 0;
    while i < 5 {
        if i + 1 < n && out.buf[i] & 0x80 == 0 {
            return 4;
        }
        i += 1;
    }
    if out.buf[n - 1] & 0x80 != 0 {
        return 5;
    }
    // read back through every source, with a suffix byte that must stay unread
    let mut stream = [0u8; 6];
    let mut i = 0;
    while i < 5 {
        if i < n {
            stream[i] = out.buf[i];
        }
        i += 1;
    }
    stream[n] = 0x5A;
    let data = &stream[..n + 1];
    let mut s = SliceInput::new(data);
    match s.read_var_u32() {
        Ok(r) if r == v => {}
        _ => return 6,
    }
    if s.pos != n {
        return 7;
    }
    let mut c = std::mem::ManuallyDrop::new(DeserializationContext::new(data));
    match c.read_var_u32() {
        Ok(r) if r == v => {}
        _ => return 8,
    }
    match c.read_u8() {
        Ok(0x5A) => {}
        _ => return 9,
    }
    if !is_eof(&c.read_u8()) {
        return 10;
    }
    0
}

pub fn sc_var_i32(input: &[u8]) -> u32 {
    if input.len() < 4 {
        return 0;
    }
    let v = ref_be(input, 4) as u32 as i32;
    let mut exp = [0u8; 5];
    let n = ref_leb(ref_zz(v), &mut exp);
    let mut out = Rec::new();
    out.write_var_i32(v);
    if out.n != n {
        return 1;
    }
    let mut i = 0;
    while i < 5 {
        if i < n && out.buf[i] != exp[i] {
            return 2;
        }
        i += 1;
    }
    if v >= -64 && v < 64 && n != 1 {
        return 3;
    }
    let mut stream = [0u8; 6];
    let mut i = 0;
    while i < 5 {
        if i < n {
            stream[i] = out.buf[i];
        }
        i += 1;
    }
    stream[n] = 0xC3;
    let data = &stream[..n + 1];
    let mut s = SliceInput::new(data);
    match s.read_var_i32() {
        Ok(r) if r == v => {}
        _ => return 4,
    }
    if s.pos != n {
        return 5;
    }
    let mut c = std::mem::ManuallyDrop::new(DeserializationContext::new(data));
    match c.read_var_i32() {
        Ok(r) if r == v => {}
        _ => return 6,
    }
    match c.read_u8() {
        Ok(0xC3) => {}
        _ => return 7,
    }
    0
}

/// read_var_u32 on arbitrary bytes == the lenient reference reader (DESIGN 4.5)
pub fn sc_var_read_any(input: &[u8]) -> u32 {
    // reference
    let mut val: u64 = 0;
    let mut used = 0usize;
    let mut complete = false;
    while used < 5 && used < input.len() {
        let b = input[used];
        val |= ((b & 0x7F) as u64) << (7 * used);
        used += 1;
        if b & 0x80 == 0 || used == 5 {
            complete = true;
            break;
        }
    }
    let val = val as u32;
    let mut s = SliceInput::new(input);
    let r = s.read_var_u32();
    if complete {
        match r {
            Ok(x) if x == val => {}
            _ => return 1,
        }
    } else if !is_eof(&r) {
        return 2;
    }
    if s.pos != used {
        return 3;
    }
    let mut c = std::mem::ManuallyDrop::new(DeserializationContext::new(input));
    let r2 = c.read_var_u32();
    if complete {
        match r2 {
            Ok(x) if x == val => {}
            _ => return 4,
        }
    } else if !is_eof(&r2) {
        return 5;
    }
    0
}

/// sink writing through a reference, so that a SerializationContext can be forgotten (its State
/// holds hashbrown tables whose drop glue is very expensive for CBMC) and the bytes still read
pub struct RecRef<'a>(pub &'a mut Rec);

impl<'a> BinaryOutput for RecRef<'a> {
    fn write_u8(&mut self, value: u8) {
        self.0.write_u8(value)
    }
    fn write_bytes(&mut self, bytes: &[u8]) {
        self.0.write_bytes(bytes)
    }
}

// ------------------------------------------------------------------ char (E8 twins)
/// contract of `impl BinarySerializer for char`: Ok iff code point <= 0xFFFF, then exactly the
/// big-endian UTF-16 unit; otherwise Err(UnsupportedCharacter(c)) 
pub fn sc_char_ser(input: &[u8]) -> u32 {
    if input.len() < 4 {
        return 0;
    }
    let code = ref_be(input, 4) as u32;
    let c = match char::from_u32(code) {
        Some(c) => c,
        None => return 0,
    };
    let mut rec = Rec::new();
    let r = {
        let mut ctx = std::mem::ManuallyDrop::new(desert_core::SerializationContext::new(RecRef(&mut rec)));
        desert_core::BinarySerializer::serialize(&c, &mut *ctx)
    };
    if code <= 0xFFFF {
        if r.is_err() {
            return 1;
        }
        if rec.n != 2 || rec.buf[0] != (code >> 8) as u8 || rec.buf[1] != code as u8 {
            return 2;
        }
    } else {
        match r {
            Err(Error::UnsupportedCharacter(x)) if x == c => {}
            _ => return 3,
        }
    }
    0
}

/// contract of `impl BinaryDeserializer for char`: < 2 bytes -> Err; surrogate unit -> Err;
/// otherwise the scalar value, 2 bytes consumed
pub fn sc_char_de(input: &[u8]) -> u32 {
    let mut c = std::mem::ManuallyDrop::new(DeserializationContext::new(input));
    let r = <char as BinaryDeserializer>::deserialize(&mut *c);
    if input.len() < 2 {
        return if r.is_err() { 0 } else { 1 };
    }
    let unit = ((input[0] as u32) << 8) | input[1] as u32;
    if unit >= 0xD800 && unit <= 0xDFFF {
        return if r.is_err() { 0 } else { 2 };
    }
    match r {
        Ok(ch) if ch as u32 == unit => {}
        _ => return 3,
    }
    // exactly two bytes consumed
    let nx = c.read_u8();
    if input.len() == 2 {
        if !is_eof(&nx) {
            return 4;
        }
    } else {
        match nx {
            Ok(b) if b == input[2] => {}
            _ => return 4,
        }
    }
    0
}

/// contract of `impl BinaryDeserializer for Duration` (dec in specs/unit_de.rs.in): < 12 bytes ->
/// Err; nanos carry into the seconds; carry past u64::MAX -> Err; never a panic
pub fn sc_duration_de(input: &[u8]) -> u32 {
    let mut c = std::mem::ManuallyDrop::new(DeserializationContext::new(input));
    let r = <std::time::Duration as BinaryDeserializer>::deserialize(&mut *c);
    if input.len() < 12 {
        return if r.is_err() { 0 } else { 1 };
    }
    let secs = ref_be(input, 8);
    let nanos = ref_be(&input[8..], 4);
    let total = secs + nanos / 1_000_000_000;
    if total > u64::MAX as u128 {
        return if r.is_err() { 0 } else { 2 };
    }
    match r {
        Ok(d) => {
            if d.as_secs() as u128 != total || d.subsec_nanos() as u128 != nanos % 1_000_000_000 {
                return 3;
            }
        }
        Err(_) => return 4,
    }
    let nx = c.read_u8();
    if input.len() == 12 {
        if !is_eof(&nx) {
            return 5;
        }
    } else {
        match nx {
            Ok(b) if b == input[12] => {}
            _ => return 5,
        }
    }
    0
}

/// AdtSerializer::new (E8, iterator chain): writes the version byte and nothing else; covered for
/// the version-0 metadata reachable through the public tuple codec: serialize((u8,u8)) == [0,a,b]
pub fn sc_tuple2_bytes(input: &[u8]) -> u32 {
    if input.len() < 2 {
        return 0;
    }
    let v = (input[0], input[1]);
    let mut rec = Rec::new();
    let r = {
        let mut ctx = std::mem::ManuallyDrop::new(desert_core::SerializationContext::new(RecRef(&mut rec)));
        desert_core::BinarySerializer::serialize(&v, &mut *ctx)
    };
    if r.is_err() {
        return 1;
    }
    if rec.n != 3 || rec.buf[0] != 0 || rec.buf[1] != input[0] || rec.buf[2] != input[1] {
        return 2;
    }
    0
}

// ------------------------------------------------------------------ serialize_iterator: count handling
/// iterator with an exact size hint of `n` that yields nothing: isolates the count prefix of
/// serialize_iterator (generic Iterator code is outside Verus).  Contract clause (C17/C12/C04):
/// n <= i32::MAX -> Ok and the bytes are the zig-zag varint of n; otherwise Err(LengthTooLarge);
/// never a panic.
pub struct FakeSized {
    pub n: usize,
}

impl Iterator for FakeSized {
    type Item = u8;
    fn next(&mut self) -> Option<u8> {
        None
    }
    fn size_hint(&self) -> (usize, Option<usize>) {
        (self.n, Some(self.n))
    }
}

pub fn sc_iter_count(input: &[u8]) -> u32 {
    if input.len() < 8 {
        return 0;
    }
    let n = ref_be(input, 8) as u64 as usize;
    let mut rec = Rec::new();
    let r = {
        let mut ctx = std::mem::ManuallyDrop::new(desert_core::SerializationContext::new(RecRef(&mut rec)));
        let mut it = FakeSized { n };
        desert_core::serialize_iterator(&mut it, &mut *ctx)
    };
    if n <= i32::MAX as usize {
        if r.is_err() {
            return 1;
        }
        let mut exp = [0u8; 5];
        let k = ref_leb(ref_zz(n as i32), &mut exp);
        if rec.n != k {
            return 2;
        }
        let mut i = 0;
        while i < 5 {
            if i < k && rec.buf[i] != exp[i] {
                return 3;
            }
            i += 1;
        }
    } else {
        match r {
            Err(Error::LengthTooLarge) => {}
            _ => return 4,
        }
    }
    0
}

/// iterator without an exact size: -1 marker, then (1 item)*, then 0 (C12/C04)
pub struct FakeUnsized {
    pub left: u8,
    pub v: u8,
}

impl Iterator for FakeUnsized {
    type Item = u8;
    fn next(&mut self) -> Option<u8> {
        if self.left == 0 {
            None
        } else {
            self.left -= 1;
            Some(self.v)
        }
    }
    fn size_hint(&self) -> (usize, Option<usize>) {
        (0, None)
    }
}

pub fn sc_iter_unknown(input: &[u8]) -> u32 {
    if input.len() < 2 {
        return 0;
    }
    let k = input[0] % 3;
    let v = input[1];
    let mut rec = Rec::new();
    let r = {
        let mut ctx = std::mem::ManuallyDrop::new(desert_core::SerializationContext::new(RecRef(&mut rec)));
        let mut it = FakeUnsized { left: k, v };
        desert_core::serialize_iterator(&mut it, &mut *ctx)
    };
    if r.is_err() {
        return 1;
    }
    // var_i32(-1) == [1]; then k times [1, v]; then [0]
    if rec.n != 2 + 2 * k as usize || rec.buf[0] != 1 {
        return 2;
    }
    let mut i = 0usize;
    while i < 2 {
        if i < k as usize && (rec.buf[1 + 2 * i] != 1 || rec.buf[2 + 2 * i] != v) {
            return 3;
        }
        i += 1;
    }
    if rec.buf[1 + 2 * k as usize] != 0 {
        return 4;
    }
    0
}

/// read_var_u32 / read_var_i32 on the heap-owning source == the lenient reference reader
pub fn sc_var_read_owned(input: &[u8]) -> u32 {
    let mut val: u64 = 0;
    let mut used = 0usize;
    let mut complete = false;
    while used < 5 && used < input.len() {
        let b = input[used];
        val |= ((b & 0x7F) as u64) << (7 * used);
        used += 1;
        if b & 0x80 == 0 || used == 5 {
            complete = true;
            break;
        }
    }
    let val = val as u32;
    let mut s = OwnedInput::new(input.to_vec());
    let r = s.read_var_u32();
    if complete {
        match r {
            Ok(x) if x == val => {}
            _ => return 1,
        }
    } else if !is_eof(&r) {
        return 2;
    }
    // the cursor is observed through the next byte
    let nx = s.read_u8();
    if used == input.len() {
        if !is_eof(&nx) {
            return 3;
        }
    } else {
        match nx {
            Ok(b) if b == input[used] => {}
            _ => return 3,
        }
    }
    0
}

// ------------------------------------------------------------------ BOUNDED stand-ins: containers
// The array / Vec codecs use castaway::cast!, MaybeUninit and transmute (outside Verus).  These
// scenarios compare the real decoder with a reference decoder written here, on all inputs up
// to a stated length.  They are bounded in the input length and reported as such.

/// reference: lenient var_i32 at the start of `b`; (value, used) or None
pub fn ref_var_i32(b: &[u8]) -> Option<(i32, usize)> {
    let mut val: u64 = 0;
    let mut used = 0usize;
    while used < 5 && used < b.len() {
        let x = b[used];
        val |= ((x & 0x7F) as u64) << (7 * used);
        used += 1;
        if x & 0x80 == 0 || used == 5 {
            let u = val as u32;
            let v = ((u >> 1) as i32) ^ -((u & 1) as i32);
            return Some((v, used));
        }
    }
    None
}

/// reference decoder of a sequence of exactly 2 big-endian u16 in either size form;
/// Some((a, b, used)) or None for "must be rejected"
pub fn ref_seq2_u16(b: &[u8]) -> Option<(u16, u16, usize)> {
    let (count, mut p) = ref_var_i32(b)?;
    if count == -1 {
        let mut out = [0u16; 2];
        let mut n = 0usize;
        loop {
            if p >= b.len() {
                return None;
            }
            let flag = b[p];
            p += 1;
            if flag == 0 {
                break;
            }
            if flag != 1 || n == 2 || p + 2 > b.len() {
                return None;
            }
            out[n] = ((b[p] as u16) << 8) | b[p + 1] as u16;
            p += 2;
            n += 1;
        }
        if n != 2 {
            return None;
        }
        Some((out[0], out[1], p))
    } else {
        if count != 2 || p + 4 > b.len() {
            return None;
        }
        Some((((b[p] as u16) << 8) | b[p + 1] as u16, ((b[p + 2] as u16) << 8) | b[p + 3] as u16, p + 4))
    }
}

/// `[u16; 2]`: accepted iff the stream holds exactly two elements (known or unknown size form),
/// value taken from the input only (C06/C12/C19), nothing uninitialised, no panic (C05)
pub fn sc_arr_u16x2(input: &[u8]) -> u32 {
    let mut c = std::mem::ManuallyDrop::new(DeserializationContext::new(input));
    let r = <[u16; 2] as BinaryDeserializer>::deserialize(&mut *c);
    match ref_seq2_u16(input) {
        None => {
            if r.is_ok() {
                return 1;
            }
        }
        Some((a, b, used)) => {
            match r {
                Ok(arr) if arr[0] == a && arr[1] == b => {}
                _ => return 2,
            }
            let nx = c.read_u8();
            if used == input.len() {
                if !is_eof(&nx) {
                    return 3;
                }
            } else {
                match nx {
                    Ok(x) if x == input[used] => {}
                    _ => return 3,
                }
            }
        }
    }
    0
}

/// `[u8; 4]`: unsigned varint length that must be exactly 4, then the 4 bytes themselves
pub fn sc_arr_u8x4(input: &[u8]) -> u32 {
    let mut c = std::mem::ManuallyDrop::new(DeserializationContext::new(input));
    let r = <[u8; 4] as BinaryDeserializer>::deserialize(&mut *c);
    // reference
    let mut val: u64 = 0;
    let mut used = 0usize;
    let mut complete = false;
    while used < 5 && used < input.len() {
        let x = input[used];
        val |= ((x & 0x7F) as u64) << (7 * used);
        used += 1;
        if x & 0x80 == 0 || used == 5 {
            complete = true;
            break;
        }
    }
    let len = val as u32;
    if !complete || len != 4 || used + 4 > input.len() {
        return if r.is_err() { 0 } else { 1 };
    }
    match r {
        Ok(arr) => {
            let mut i = 0;
            while i < 4 {
                if arr[i] != input[used + i] {
                    return 2;
                }
                i += 1;
            }
        }
        Err(_) => return 3,
    }
    0
}

/// `Vec<u16>` decoder == reference on short inputs (element count <= 2)
pub fn sc_vec_u16(input: &[u8]) -> u32 {
    let mut c = std::mem::ManuallyDrop::new(DeserializationContext::new(input));
    let r = <Vec<u16> as BinaryDeserializer>::deserialize(&mut *c);
    let r = std::mem::ManuallyDrop::new(r);
    // reference (known form only needs count*2 bytes; unknown form flagged items)
    let head = ref_var_i32(input);
    let (count, mut p) = match head {
        None => return if r.is_err() { 0 } else { 1 },
        Some(x) => x,
    };
    let mut exp = [0u16; 3];
    let mut n = 0usize;
    let mut ok = true;
    if count == -1 {
        loop {
            if p >= input.len() {
                ok = false;
                break;
            }
            let flag = input[p];
            p += 1;
            if flag == 0 {
                break;
            }
            if flag != 1 || p + 2 > input.len() || n == 3 {
                ok = false;
                break;
            }
            exp[n] = ((input[p] as u16) << 8) | input[p + 1] as u16;
            p += 2;
            n += 1;
        }
    } else if count < 0 {
        ok = false;
    } else {
        let cnt = count as usize;
        if cnt > 3 || p + 2 * cnt > input.len() {
            ok = false;
        } else {
            while n < cnt {
                exp[n] = ((input[p] as u16) << 8) | input[p + 1] as u16;
                p += 2;
                n += 1;
            }
        }
    }
    match &*r {
        Ok(v) => {
            if !ok || v.len() != n {
                return 2;
            }
            let mut i = 0;
            while i < 3 {
                if i < n && v[i] != exp[i] {
                    return 3;
                }
                i += 1;
            }
        }
        Err(_) => {
            if ok {
                return 4;
            }
        }
    }
    0
}

// ------------------------------------------------------------------ BOUNDED: container writers
fn ser_into<T: desert_core::BinarySerializer + ?Sized>(v: &T, rec: &mut Rec) -> bool {
    let mut ctx = std::mem::ManuallyDrop::new(desert_core::SerializationContext::new(RecRef(rec)));
    v.serialize(&mut *ctx).is_ok()
}

fn expect(rec: &Rec, exp: &[u8]) -> bool {
    if rec.n != exp.len() {
        return false;
    }
    let mut i = 0;
    while i < exp.len() {
        if rec.buf[i] != exp[i] {
            return false;
        }
        i += 1;
    }
    true
}

/// sequence writers emit zig-zag count + items for every container of the family (C12/C04):
/// Vec<u16>, [u16], [u16; 2], LinkedList<u16> with the same two elements give the same bytes
pub fn sc_seq_writers(input: &[u8]) -> u32 {
    if input.len() < 4 {
        return 0;
    }
    let a = ((input[0] as u16) << 8) | input[1] as u16;
    let b = ((input[2] as u16) << 8) | input[3] as u16;
    let exp = [4u8, input[0], input[1], input[2], input[3]]; // zig-zag(2) == 4
    let v = std::mem::ManuallyDrop::new(vec![a, b]);
    let mut rec = Rec::new();
    if !ser_into(&*v, &mut rec) || !expect(&rec, &exp) {
        return 1;
    }
    let mut rec = Rec::new();
    if !ser_into(&v[..], &mut rec) || !expect(&rec, &exp) {
        return 2;
    }
    let arr = [a, b];
    let mut rec = Rec::new();
    if !ser_into(&arr, &mut rec) || !expect(&rec, &exp) {
        return 3;
    }
    0
}

/// byte containers use the raw-length form (unsigned varint length + bytes): Vec<u8>, [u8], [u8; 3]
pub fn sc_byte_writers(input: &[u8]) -> u32 {
    if input.len() < 3 {
        return 0;
    }
    let exp = [3u8, input[0], input[1], input[2]];
    let v = std::mem::ManuallyDrop::new(vec![input[0], input[1], input[2]]);
    let mut rec = Rec::new();
    if !ser_into(&*v, &mut rec) || !expect(&rec, &exp) {
        return 1;
    }
    let mut rec = Rec::new();
    if !ser_into(&v[..], &mut rec) || !expect(&rec, &exp) {
        return 2;
    }
    let arr = [input[0], input[1], input[2]];
    let mut rec = Rec::new();
    if !ser_into(&arr, &mut rec) || !expect(&rec, &exp) {
        return 3;
    }
    0
}

/// empty containers: count 0 (sequence form) / length 0 (byte form)
pub fn sc_empty_writers(_input: &[u8]) -> u32 {
    let v: std::mem::ManuallyDrop<Vec<u16>> = std::mem::ManuallyDrop::new(Vec::new());
    let mut rec = Rec::new();
    if !ser_into(&*v, &mut rec) || !expect(&rec, &[0u8]) {
        return 1;
    }
    let e: [u16; 0] = [];
    let mut rec = Rec::new();
    if !ser_into(&e, &mut rec) || !expect(&rec, &[0u8]) {
        return 2;
    }
    let b: [u8; 0] = [];
    let mut rec = Rec::new();
    if !ser_into(&b, &mut rec) || !expect(&rec, &[0u8]) {
        return 3;
    }
    0
}


// ------------------------------------------------------------------ other std containers (bounded)
// (BTreeSet / BTreeMap with two entries did not finish in 25 min under CBMC: not covered)
/// LinkedList<u8> with two elements: writer emits count + items in order; the reader gives the
/// same list back (order kept) -- both impls of the real crate
pub fn sc_list_rt(input: &[u8]) -> u32 {
    if input.len() < 2 {
        return 0;
    }
    let mut l = std::collections::LinkedList::new();
    l.push_back(input[0]);
    l.push_back(input[1]);
    let l = std::mem::ManuallyDrop::new(l);
    let exp = [4u8, input[0], input[1]];
    let mut rec = Rec::new();
    if !ser_into(&*l, &mut rec) || !expect(&rec, &exp) {
        return 1;
    }
    let mut c = std::mem::ManuallyDrop::new(DeserializationContext::new(&exp));
    match <std::collections::LinkedList<u8> as BinaryDeserializer>::deserialize(&mut *c) {
        Ok(back) => {
            let back = std::mem::ManuallyDrop::new(back);
            if back.len() != 2 {
                return 2;
            }
            let mut it = back.iter();
            if it.next() != Some(&input[0]) || it.next() != Some(&input[1]) {
                return 3;
            }
            0
        }
        Err(_) => 4,
    }
}

// ------------------------------------------------------------------ C15: size calculator == bytes written
/// for every u32 / i32 value: the SizeCalculator counts exactly the bytes a recording sink receives for write_var_u32 / write_var_i32
pub fn sc_size_calc(input: &[u8]) -> u32 {
    if input.len() < 4 {
        return 0;
    }
    let v = ref_be(input, 4) as u32;
    let mut rec = Rec::new();
    rec.write_var_u32(v);
    let mut sc = desert_core::SizeCalculator::new();
    sc.write_var_u32(v);
    if sc.size() != rec.n {
        return 1;
    }
    let mut rec2 = Rec::new();
    rec2.write_var_i32(v as i32);
    let mut sc2 = desert_core::SizeCalculator::new();
    sc2.write_var_i32(v as i32);
    if sc2.size() != rec2.n {
        return 2;
    }
    0
}

// ------------------------------------------------------------------ BOUNDED: built-in decoders vs reference on short inputs
fn next_is(c: &mut std::mem::ManuallyDrop<DeserializationContext<'_>>, input: &[u8], used: usize) -> bool {
    let nx = c.read_u8();
    if used >= input.len() {
        is_eof(&nx)
    } else {
        matches!(nx, Ok(b) if b == input[used])
    }
}

fn ref_leb_u32(b: &[u8]) -> Option<(u32, usize)> {
    let mut val: u64 = 0;
    let mut used = 0usize;
    while used < 5 && used < b.len() {
        let x = b[used];
        val |= ((x & 0x7F) as u64) << (7 * used);
        used += 1;
        if x & 0x80 == 0 || used == 5 {
            return Some((val as u32, used));
        }
    }
    None
}

/// bytes::Bytes: unsigned varint length, then exactly that many bytes (C01/C04/C06/C07/C12)
pub fn sc_dec_bytes(input: &[u8]) -> u32 {
    let mut c = std::mem::ManuallyDrop::new(DeserializationContext::new(input));
    let r = std::mem::ManuallyDrop::new(<desert_core_bytes::Bytes as BinaryDeserializer>::deserialize(&mut *c));
    let exp = match ref_leb_u32(input) {
        Some((len, used)) if (len as usize) <= input.len() - used => Some((used, len as usize)),
        _ => None,
    };
    match (&*r, exp) {
        (Err(_), None) => 0,
        (Ok(b), Some((used, len))) => {
            if b.len() != len {
                return 2;
            }
            let mut i = 0;
            while i < 5 {
                if i < len && b[i] != input[used + i] {
                    return 3;
                }
                i += 1;
            }
            if !next_is(&mut c, input, used + len) {
                return 4;
            }
            0
        }
        _ => 1,
    }
}

/// String: zig-zag varint byte length (negative -> error), then UTF-8 bytes (validated)
pub fn sc_dec_string(input: &[u8]) -> u32 {
    let mut c = std::mem::ManuallyDrop::new(DeserializationContext::new(input));
    let r = std::mem::ManuallyDrop::new(<String as BinaryDeserializer>::deserialize(&mut *c));
    let exp = match ref_var_i32(input) {
        Some((len, used)) if len >= 0 && (len as usize) <= input.len() - used => {
            if std::str::from_utf8(&input[used..used + len as usize]).is_ok() {
                Some((used, len as usize))
            } else {
                None
            }
        }
        _ => None,
    };
    match (&*r, exp) {
        (Err(_), None) => 0,
        (Ok(st), Some((used, len))) => {
            let sb = st.as_bytes();
            if sb.len() != len {
                return 2;
            }
            let mut i = 0;
            while i < 4 {
                if i < len && sb[i] != input[used + i] {
                    return 3;
                }
                i += 1;
            }
            if !next_is(&mut c, input, used + len) {
                return 4;
            }
            0
        }
        _ => 1,
    }
}

/// Option<u16> and Result<u8, u16>: tags 0/1 only, payload big-endian, exact consumption
pub fn sc_dec_opt_res(input: &[u8]) -> u32 {
    {
        let mut c = std::mem::ManuallyDrop::new(DeserializationContext::new(input));
        let r = <Option<u16> as BinaryDeserializer>::deserialize(&mut *c);
        let exp: Option<(Option<u16>, usize)> = if input.len() >= 1 && input[0] == 0 {
            Some((None, 1))
        } else if input.len() >= 3 && input[0] == 1 {
            Some((Some(((input[1] as u16) << 8) | input[2] as u16), 3))
        } else {
            None
        };
        match (r, exp) {
            (Err(_), None) => {}
            (Ok(v), Some((e, used))) => {
                if v != e {
                    return 2;
                }
                if !next_is(&mut c, input, used) {
                    return 3;
                }
            }
            _ => return 1,
        }
    }
    let mut c = std::mem::ManuallyDrop::new(DeserializationContext::new(input));
    let r = <Result<u8, u16> as BinaryDeserializer>::deserialize(&mut *c);
    let exp: Option<(Result<u8, u16>, usize)> = if input.len() >= 2 && input[0] == 1 {
        Some((Ok(input[1]), 2))
    } else if input.len() >= 3 && input[0] == 0 {
        Some((Err(((input[1] as u16) << 8) | input[2] as u16), 3))
    } else {
        None
    };
    match (r, exp) {
        (Err(_), None) => 0,
        (Ok(v), Some((e, used))) => {
            if v != e {
                return 5;
            }
            if !next_is(&mut c, input, used) {
                return 6;
            }
            0
        }
        _ => 4,
    }
}

/// (u8, u16) written headerless: version byte 0 then the fields; exact consumption.  Inputs
/// whose first byte is not 0 (evolved form) are not judged here.
pub fn sc_dec_tuple_v0(input: &[u8]) -> u32 {
    if input.len() >= 1 && input[0] != 0 {
        return 0;
    }
    let mut c = std::mem::ManuallyDrop::new(DeserializationContext::new(input));
    let r = <(u8, u16) as BinaryDeserializer>::deserialize(&mut *c);
    if input.len() < 4 {
        return if r.is_err() { 0 } else { 1 };
    }
    match r {
        Ok((a, b)) if a == input[1] && b == (((input[2] as u16) << 8) | input[3] as u16) => {}
        _ => return 2,
    }
    if !next_is(&mut c, input, 4) {
        return 3;
    }
    0
}


// ------------------------------------------------------------------ leaf codecs through the real impls
/// `impl BinarySerializer for T` / `impl BinaryDeserializer for T` of one fixed-width leaf type:
/// serialize(v) is Ok and appends exactly `expect` (the big-endian bytes of v's bit pattern), and
/// deserializing those bytes gives a value with the same bit pattern (floats: NaN payloads kept)
fn leaf_rt<T: desert_core::BinarySerializer + BinaryDeserializer>(v: &T, expect: &[u8], same: fn(&T, &T) -> bool) -> u32 {
    let mut rec = Rec::new();
    let r = {
        let mut ctx = std::mem::ManuallyDrop::new(desert_core::SerializationContext::new(RecRef(&mut rec)));
        desert_core::BinarySerializer::serialize(v, &mut *ctx)
    };
    if r.is_err() {
        return 1;
    }
    if rec.n != expect.len() {
        return 2;
    }
    let mut i = 0;
    while i < expect.len() {
        if rec.buf[i] != expect[i] {
            return 3;
        }
        i += 1;
    }
    let mut c = std::mem::ManuallyDrop::new(DeserializationContext::new(&rec.buf[..expect.len()]));
    match <T as BinaryDeserializer>::deserialize(&mut *c) {
        Ok(w) if same(&w, v) => 0,
        _ => 4,
    }
}

macro_rules! sc_leaf {
    ($name:ident, $n:expr, $( ($ty:ty, $conv:expr, $same:expr) ),+ ) => {
        pub fn $name(input: &[u8]) -> u32 {
            if input.len() < $n {
                return 0;
            }
            let raw = ref_be(input, $n);
            let mut k = 0u32;
            $(
                let v: $ty = $conv(raw);
                let c = leaf_rt::<$ty>(&v, &input[..$n], $same);
                if c != 0 {
                    return 10 * k + c;
                }
                k += 1;
            )+
            let _ = k;
            0
        }
    };
}

sc_leaf!(sc_leaf_8, 1,
    (u8, |r: u128| r as u8, |a: &u8, b: &u8| a == b),
    (i8, |r: u128| r as u8 as i8, |a: &i8, b: &i8| a == b));
sc_leaf!(sc_leaf_16, 2,
    (u16, |r: u128| r as u16, |a: &u16, b: &u16| a == b),
    (i16, |r: u128| r as u16 as i16, |a: &i16, b: &i16| a == b));
sc_leaf!(sc_leaf_32, 4,
    (u32, |r: u128| r as u32, |a: &u32, b: &u32| a == b),
    (i32, |r: u128| r as u32 as i32, |a: &i32, b: &i32| a == b),
    (f32, |r: u128| f32::from_bits(r as u32), |a: &f32, b: &f32| a.to_bits() == b.to_bits()));
sc_leaf!(sc_leaf_64, 8,
    (u64, |r: u128| r as u64, |a: &u64, b: &u64| a == b),
    (i64, |r: u128| r as u64 as i64, |a: &i64, b: &i64| a == b),
    (f64, |r: u128| f64::from_bits(r as u64), |a: &f64, b: &f64| a.to_bits() == b.to_bits()));
sc_leaf!(sc_leaf_128, 16,
    (u128, |r: u128| r, |a: &u128, b: &u128| a == b),
    (i128, |r: u128| r as i128, |a: &i128, b: &i128| a == b));

/// bool: true <-> [1], false <-> [0]; unit: no bytes
pub fn sc_leaf_bool(input: &[u8]) -> u32 {
    if input.len() < 1 {
        return 0;
    }
    let v = input[0] & 1 == 1;
    let e = [if v { 1u8 } else { 0u8 }];
    let c = leaf_rt::<bool>(&v, &e, |a, b| a == b);
    if c != 0 {
        return c;
    }
    let c = leaf_rt::<()>(&(), &[], |_, _| true);
    if c != 0 {
        return 10 + c;
    }
    0
}

pub type Scenario = fn(&[u8]) -> u32;

/// name, function, input length the harness quantifies over, description
pub const SCENARIOS: &[(&str, Scenario, usize, &str)] = &[
    ("write_u16", sc_write_u16, 2, "write_u16 appends be(2,v) for all v"),
    ("write_i16", sc_write_i16, 2, "write_i16 appends be(2,v) for all v"),
    ("write_u32", sc_write_u32, 4, "write_u32 appends be(4,v) for all v"),
    ("write_i32", sc_write_i32, 4, "write_i32 appends be(4,v) for all v"),
    ("write_u64", sc_write_u64, 8, "write_u64 appends be(8,v) for all v"),
    ("write_i64", sc_write_i64, 8, "write_i64 appends be(8,v) for all v"),
    ("write_u128", sc_write_u128, 16, "write_u128 appends be(16,v) for all v"),
    ("write_i128", sc_write_i128, 16, "write_i128 appends be(16,v) for all v"),
    ("write_f32", sc_write_f32, 4, "write_f32 appends be(4,bits(v)) for all bit patterns incl. NaN"),
    ("write_f64", sc_write_f64, 8, "write_f64 appends be(8,bits(v)) for all bit patterns incl. NaN"),
    ("read_u16", sc_read_u16, 3, "read_u16 contract on SliceInput + DeserializationContext, all inputs of length 0..=3"),
    ("read_i16", sc_read_i16, 3, "read_i16 contract, lengths 0..=3"),
    ("read_u32", sc_read_u32, 5, "read_u32 contract, lengths 0..=5"),
    ("read_i32", sc_read_i32, 5, "read_i32 contract, lengths 0..=5"),
    ("read_u64", sc_read_u64, 9, "read_u64 contract, lengths 0..=9"),
    ("read_i64", sc_read_i64, 9, "read_i64 contract, lengths 0..=9"),
    ("read_u128", sc_read_u128, 17, "read_u128 contract, lengths 0..=17"),
    ("read_i128", sc_read_i128, 17, "read_i128 contract, lengths 0..=17"),
    ("read_f32", sc_read_f32, 5, "read_f32 contract (bit patterns), lengths 0..=5"),
    ("read_f64", sc_read_f64, 9, "read_f64 contract (bit patterns), lengths 0..=9"),
    ("read_owned", sc_read_owned, 9, "read_u16/read_u64 contract on OwnedInput, lengths 0..=9"),
    ("var_u32", sc_var_u32, 4, "write_var_u32 == LEB128, minimal, continuation bits; read back on 2 sources; all 2^32 values"),
    ("var_i32", sc_var_i32, 4, "write_var_i32 == LEB128(zigzag); read back; all 2^32 values"),
    ("char_ser", sc_char_ser, 4, "char::serialize contract for every Unicode scalar value"),
    ("char_de", sc_char_de, 3, "char::deserialize contract on all inputs of length 0..=3"),
    ("duration_de", sc_duration_de, 13, "Duration::deserialize contract on all inputs of length 0..=13 (no panic on carry overflow)"),
    ("tuple2_bytes", sc_tuple2_bytes, 2, "serialize((u8,u8)) == [0,a,b] for all a,b"),
    ("iter_count", sc_iter_count, 8, "serialize_iterator with an exact size hint n (all usize n): Ok + zig-zag varint of n iff n <= i32::MAX, else Err(LengthTooLarge), never a panic"),
    ("iter_unknown", sc_iter_unknown, 2, "serialize_iterator without exact size: -1, (1 item)*, 0 for 0..=2 items"),
    ("var_read_owned", sc_var_read_owned, 6, "read_var_u32 on OwnedInput == lenient reference reader, all inputs of length 0..=6"),
    ("arr_u16x2", sc_arr_u16x2, 8, "BOUNDED: [u16;2] decoder == reference (both size forms, exact count) on all inputs of length 0..=8"),
    ("arr_u8x4", sc_arr_u8x4, 6, "BOUNDED: [u8;4] decoder == reference (length must be 4) on all inputs of length 0..=6"),
    ("vec_u16", sc_vec_u16, 6, "BOUNDED: Vec<u16> decoder == reference on all inputs of length 0..=6"),
    ("seq_writers", sc_seq_writers, 4, "BOUNDED (2 elements, all values): Vec<u16> / [u16] / [u16;2] writers emit count + items, identical bytes"),
    ("byte_writers", sc_byte_writers, 3, "BOUNDED (3 bytes, all values): Vec<u8> / [u8] / [u8;3] writers emit raw length + bytes"),
    ("empty_writers", sc_empty_writers, 0, "BOUNDED (fixed): empty containers write count/length 0"),
    ("size_calc", sc_size_calc, 4, "SizeCalculator counts exactly the bytes of write_var_u32/_i32 that a recording sink receives, all 2^32 values"),
    ("dec_bytes", sc_dec_bytes, 5, "BOUNDED: bytes::Bytes decoder == reference, all inputs of length 0..=5"),
    ("dec_opt_res", sc_dec_opt_res, 4, "BOUNDED: Option<u16> and Result<u8,u16> decoders == reference, all inputs of length 0..=4"),
    ("leaf_8", sc_leaf_8, 1, "u8/i8 serialize + deserialize impls: exact byte, round trip, all values"),
    ("leaf_16", sc_leaf_16, 2, "u16/i16 serialize + deserialize impls: big-endian bytes, round trip, all values"),
    ("leaf_32", sc_leaf_32, 4, "u32/i32/f32 serialize + deserialize impls: big-endian bytes of the bit pattern, round trip by bit pattern (NaN payloads), all values"),
    ("leaf_64", sc_leaf_64, 8, "u64/i64/f64 serialize + deserialize impls, all values / bit patterns"),
    ("leaf_128", sc_leaf_128, 16, "u128/i128 serialize + deserialize impls, all values"),
    ("leaf_bool", sc_leaf_bool, 1, "bool and () serialize + deserialize impls"),
    ("list_rt", sc_list_rt, 2, "BOUNDED (2 elements, all values): LinkedList<u8> writer bytes and reader round trip, order kept"),
    ("var_read_any", sc_var_read_any, 6, "read_var_u32 == lenient reference reader on all inputs of length 0..=6"),
];

pub fn lookup(name: &str) -> Option<(Scenario, usize, &'static str)> {
    for (n, f, len, d) in SCENARIOS {
        if *n == name {
            return Some((*f, *len, *d));
        }
    }
    None
}

// keep the trait import used in every cfg
#[allow(dead_code)]
fn _uses<T: BinaryDeserializer>() {}
