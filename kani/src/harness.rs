//! One `#[kani::proof]` per scenario: all inputs of length 0..=N (N from the scenario table).
use crate::scenarios::*;
extern crate alloc;

/// `format!` on error paths dominates CBMC time; error message text is irrelevant to every clause
pub fn fake_format(_args: core::fmt::Arguments<'_>) -> String {
    String::new()
}

macro_rules! hs {
    ($h:ident, $sc:ident, $n:expr, $unwind:expr) => {
        #[kani::proof]
        #[kani::unwind($unwind)]
        #[kani::stub(alloc::fmt::format, fake_format)]
        fn $h() {
            let a: [u8; $n] = kani::any();
            let len: usize = kani::any();
            kani::assume(len <= $n);
            let code = $sc(&a[..len]);
            kani::cover!(len == $n && code == 0);
            assert!(code == 0);
        }
    };
}


macro_rules! h {
    ($h:ident, $sc:ident, $n:expr, $unwind:expr) => {
        #[kani::proof]
        #[kani::unwind($unwind)]
        fn $h() {
            let a: [u8; $n] = kani::any();
            let len: usize = kani::any();
            kani::assume(len <= $n);
            let code = $sc(&a[..len]);
            kani::cover!(len == $n && code == 0);
            assert!(code == 0);
        }
    };
}

h!(h_write_u16, sc_write_u16, 2, 42);
h!(h_write_i16, sc_write_i16, 2, 42);
h!(h_write_u32, sc_write_u32, 4, 42);
h!(h_write_i32, sc_write_i32, 4, 42);
h!(h_write_u64, sc_write_u64, 8, 42);
h!(h_write_i64, sc_write_i64, 8, 42);
h!(h_write_u128, sc_write_u128, 16, 42);
h!(h_write_i128, sc_write_i128, 16, 42);
h!(h_write_f32, sc_write_f32, 4, 42);
h!(h_write_f64, sc_write_f64, 8, 42);
h!(h_read_u16, sc_read_u16, 3, 20);
h!(h_read_i16, sc_read_i16, 3, 20);
h!(h_read_u32, sc_read_u32, 5, 20);
h!(h_read_i32, sc_read_i32, 5, 20);
h!(h_read_u64, sc_read_u64, 9, 20);
h!(h_read_i64, sc_read_i64, 9, 20);
h!(h_read_u128, sc_read_u128, 17, 20);
h!(h_read_i128, sc_read_i128, 17, 20);
h!(h_read_f32, sc_read_f32, 5, 20);
h!(h_read_f64, sc_read_f64, 9, 20);
h!(h_read_owned, sc_read_owned, 9, 20);
h!(h_var_u32, sc_var_u32, 4, 42);
h!(h_var_i32, sc_var_i32, 4, 42);
h!(h_var_read_any, sc_var_read_any, 6, 20);
h!(h_char_ser, sc_char_ser, 4, 42);
h!(h_char_de, sc_char_de, 3, 20);
h!(h_duration_de, sc_duration_de, 13, 20);
h!(h_tuple2_bytes, sc_tuple2_bytes, 2, 42);
h!(h_iter_count, sc_iter_count, 8, 42);
h!(h_iter_unknown, sc_iter_unknown, 2, 42);
h!(h_var_read_owned, sc_var_read_owned, 6, 20);
hs!(h_arr_u16x2, sc_arr_u16x2, 8, 12);
h!(h_arr_u8x4, sc_arr_u8x4, 6, 12);
hs!(h_vec_u16, sc_vec_u16, 5, 12);

hs!(h_seq_writers, sc_seq_writers, 4, 12);
hs!(h_byte_writers, sc_byte_writers, 3, 12);
hs!(h_empty_writers, sc_empty_writers, 1, 12);
h!(h_size_calc, sc_size_calc, 4, 42);
hs!(h_dec_bytes, sc_dec_bytes, 5, 12);
hs!(h_dec_opt_res, sc_dec_opt_res, 4, 12);
h!(h_leaf_8, sc_leaf_8, 1, 42);
h!(h_leaf_16, sc_leaf_16, 2, 42);
h!(h_leaf_32, sc_leaf_32, 4, 42);
h!(h_leaf_64, sc_leaf_64, 8, 42);
h!(h_leaf_128, sc_leaf_128, 16, 42);
h!(h_leaf_bool, sc_leaf_bool, 1, 42);
hs!(h_list_rt, sc_list_rt, 2, 12);
