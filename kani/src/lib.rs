//! Kani harnesses over the REAL desert_core crate (path dependency on /repo/desert_core).
//!
//! Every obligation is a `scenario`: `fn(&[u8]) -> u32` that drives real library functions
//! with values built from the input bytes and returns 0 when the contract clause holds, or
//! the number of the clause that failed.  The same function is (a) wrapped in a
//! `#[kani::proof]` harness over `kani::any()` input and (b) compiled natively into the
//! `replay` binary, which re-runs it on the concrete bytes Kani reports.
#![allow(clippy::all)]

pub mod scenarios;

#[cfg(kani)]
mod harness;
