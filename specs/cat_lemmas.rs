// ---------------------------------------------------------------------------------------
// cat_lemmas.rs -- summaries of the opaque ADT-layer postconditions used by the generated
// catalogue unit (derive-macro expansions): positional reads over version-0 metadata.
// ---------------------------------------------------------------------------------------

/// optional field of a version-0 definition: absent if its name was removed in the stored
/// version (nothing consumed), otherwise an Option
pub open spec fn dec_ofield<T: BinaryDeserializer>(w: Seq<u8>, t: Tbl, removed: bool) -> Dec<Option<T::G>> {
    if removed { Dec::Ok { v: None, n: 0, t } } else { Option::<T>::dec(w, t) }
}

/// summary of one `read_optional_field(name, None)` on a tuple-state deserializer
pub broadcast proof fn lemma_rof_tuple<T: BinaryDeserializer>(o: &AdtDeserializer, a: &AdtDeserializer, name: Seq<char>, r: Result<Option<T>>)
    requires
        #[trigger] rof_post::<T>(o, a, name, None, r),
        o.tstate(),
        o.metadata.made_optional_at@ == Map::<Seq<char>, u8>::empty(),
    ensures
        match dec_ofield::<T>(o.field_window(0), o.strs(), o.removed_fields@.contains(name)) {
            Dec::Ok { v, n, t } => r is Ok && r->Ok_0.gv() == v && n <= o.field_window(0).len()
                && a.same_header(o) && a.advanced(o, 0, n) && a.strs() == t
                && a.adwf()
                && a.last_index_per_chunk@[0] == (if o.removed_fields@.contains(name) { o.last_index_per_chunk@[0] as int } else { o.last_index_per_chunk@[0] + 1 })
                && a.field_window(0) =~= o.field_window(0).skip(n as int),
            Dec::Err => r is Err,
        },
{
    reveal(rof_post);
}

/// summary of one write_field on a headerless (version 0) serializer
pub proof fn lemma_wf_v0<Output: BinaryOutput>(o: &AdtSerializer<Output>, a: &AdtSerializer<Output>, name: Seq<char>, e: Seq<u8>, t2: Tbl)
    requires
        wf_post(o, a, name, e, t2),
        o.headerless(),
    ensures
        a.aswf(),
        a.headerless(),
        a.metadata == o.metadata,
        a.field_indices@ == o.field_indices@,
        a.last_index_per_chunk@ == o.last_index_per_chunk@,
        swrote(o.ctx(), a.ctx(), e, t2),
{
    reveal(wf_post);
}

// ---- broadcast forms (used inside generated enum bodies, where the intermediate context of
// ---- write_constructor is an existential witness that cannot be named)
pub broadcast proof fn lemma_swrote_trans_b<O: BinaryOutput>(a: &SerializationContext<O>, b: &SerializationContext<O>, c: &SerializationContext<O>, x: Seq<u8>, y: Seq<u8>, t1: Tbl, t2: Tbl)
    requires
        #[trigger] swrote(a, b, x, t1),
        #[trigger] swrote(b, c, y, t2),
    ensures
        swrote(a, c, x + y, t2),
{
    lemma_swrote_trans(a, b, c, x, y, t1, t2);
}

/// raw writes inside a case closure (no codec call): their frame facts make an `swrote`
pub broadcast proof fn lemma_swrote_wrote_b<O: BinaryOutput>(pre: &SerializationContext<O>, post: &SerializationContext<O>, b: Seq<u8>)
    requires
        post.owf(),
        post.olen() == pre.olen() + b.len(),
        post.keeps() == pre.keeps(),
        pre.keeps() ==> post.obytes() =~= pre.obytes() + b,
        post.orest().lower =~~= pre.orest().lower,
        post.orest().strs == pre.orest().strs,
        post.orest().refs == pre.orest().refs,
    ensures
        #[trigger] swrote(pre, post, b, pre.state.strs()),
{
    lemma_swrote_wrote(pre, post, b);
}

pub broadcast proof fn lemma_swrote_all_b<O: BinaryOutput>(a: &SerializationContext<O>, b: &SerializationContext<O>, x: Seq<u8>, t: Tbl)
    requires
        #[trigger] swrote(a, b, x, t),
    ensures
        b.owf(),
        b.olen() == a.olen() + x.len(),
        b.keeps() == a.keeps(),
        a.keeps() ==> b.obytes() =~= a.obytes() + x,
        b.orest().lower == a.orest().lower,
        b.orest().strs == t,
        b.orest().refs == a.orest().refs,
{
    lemma_swrote_all(a, b, x, t);
}

pub broadcast proof fn lemma_swrote_facts_b<O: BinaryOutput>(a: &SerializationContext<O>, b: &SerializationContext<O>, x: Seq<u8>, t: Tbl)
    requires
        #[trigger] swrote(a, b, x, t),
    ensures
        b.owf(),
        b.state.strs() == t,
        b.orest().lower == a.orest().lower,
{
    lemma_swrote_facts(a, b, x, t);
}

pub broadcast proof fn lemma_wf_v0_b<Output: BinaryOutput>(o: &AdtSerializer<Output>, a: &AdtSerializer<Output>, name: Seq<char>, e: Seq<u8>, t2: Tbl)
    requires
        #[trigger] wf_post(o, a, name, e, t2),
        o.headerless(),
    ensures
        a.aswf(),
        a.headerless(),
        a.metadata == o.metadata,
        a.field_indices@ == o.field_indices@,
        a.last_index_per_chunk@ == o.last_index_per_chunk@,
        swrote(o.ctx(), a.ctx(), e, t2),
{
    lemma_wf_v0(o, a, name, e, t2);
}

/// summary of one write_field on a chunked (evolved) serializer
pub proof fn lemma_wf_chunked<Output: BinaryOutput>(o: &AdtSerializer<Output>, a: &AdtSerializer<Output>, name: Seq<char>, e: Seq<u8>, t2: Tbl)
    requires
        wf_post(o, a, name, e, t2),
        !o.headerless(),
    ensures
        a.aswf(),
        a.metadata == o.metadata,
        a.buffers@.len() == o.buffers@.len(),
        swrote(o.ctx(), a.ctx(), Seq::<u8>::empty(), t2),
        ({
            let ch = o.metadata.chunk_of(name) as int;
            &&& a.chunk(ch) =~= o.chunk(ch) + e
            &&& forall|i: int| 0 <= i < o.buffers@.len() && i != ch ==> #[trigger] a.chunk(i) == o.chunk(i)
            &&& a.field_indices@ == o.field_indices@.insert(name, FieldPosition { chunk: ch as u8, position: o.next_index(ch) })
            &&& a.last_index_per_chunk@ == o.last_index_per_chunk@.insert(ch, o.next_index(ch))
        }),
{
    reveal(wf_post);
}

/// what every read_field / read_optional_field preserves (enough for the next read's precondition)
pub broadcast proof fn lemma_rf_any<T: BinaryDeserializer>(o: &AdtDeserializer, a: &AdtDeserializer, name: Seq<char>, d: Option<T>, r: Result<T>)
    requires
        #[trigger] rf_post::<T>(o, a, name, d, r),
        o.adwf(),
        o.last_index_per_chunk@[o.metadata.chunk_of(name) as int] < 127,
    ensures
        r is Ok ==> a.adwf() && a.metadata == o.metadata
            && a.last_index_per_chunk@.len() == o.last_index_per_chunk@.len()
            && (forall|c: int| 0 <= c < o.last_index_per_chunk@.len() ==> #[trigger] a.last_index_per_chunk@[c] <= o.last_index_per_chunk@[c] + 1)
            // the stream is only ever moved forward, inside its current region
            && a.dctx().frame_eq(o.dctx()) && a.dctx().current.pos >= o.dctx().current.pos,
{
    reveal(rf_post);
}

pub broadcast proof fn lemma_rof_any<T: BinaryDeserializer>(o: &AdtDeserializer, a: &AdtDeserializer, name: Seq<char>, d: Option<Option<T>>, r: Result<Option<T>>)
    requires
        #[trigger] rof_post::<T>(o, a, name, d, r),
        o.adwf(),
        o.last_index_per_chunk@[o.metadata.chunk_of(name) as int] < 127,
    ensures
        r is Ok ==> a.adwf() && a.metadata == o.metadata
            && a.last_index_per_chunk@.len() == o.last_index_per_chunk@.len()
            && (forall|c: int| 0 <= c < o.last_index_per_chunk@.len() ==> #[trigger] a.last_index_per_chunk@[c] <= o.last_index_per_chunk@[c] + 1)
            // the stream is only ever moved forward, inside its current region
            && a.dctx().frame_eq(o.dctx()) && a.dctx().current.pos >= o.dctx().current.pos,
{
    reveal(rof_post);
}

// ======================================================================= record reader as a function
// The documented outcome table of read_field / read_optional_field (rf_post / rof_post) restated as
// pure functions over an abstract reader state, so that the reader of a record with evolution
// steps can be specified as a chain of steps generated from its declaration (tools/catgen_evolved.py).

/// what is left of each chunk, the per-chunk field counters, the string table
pub ghost struct RS {
    pub wins: Seq<Seq<u8>>,
    pub idx: Seq<int>,
    pub t: Tbl,
}

/// what the stored data says about itself
pub ghost struct RH {
    pub sv: int,
    pub removed: Set<Seq<char>>,
    pub mo: Map<(int, int), u8>,
}

/// `read_field(name, default)`, field of chunk ch: (value, bytes taken from the chunk, state after); None = error
pub open spec fn rf_step<T: BinaryDeserializer>(s: RS, h: RH, name: Seq<char>, ch: int, d: Option<T::G>) -> Option<(T::G, nat, RS)> {
    if h.removed.contains(name) { None } else {
        let i = s.idx[ch] + 1;
        if h.sv < ch {
            // the chunk was never written: the declared default, or the specific error
            match d { Some(dv) => Some((dv, 0nat, RS { wins: s.wins, idx: s.idx.update(ch, i), t: s.t })), None => None }
        } else {
            match (if h.mo.contains_key((ch, i)) { dec_flagged::<T>(s.wins[ch], s.t) } else { T::dec(s.wins[ch], s.t) }) {
                Dec::Ok { v, n, t } => Some((v, n, RS { wins: s.wins.update(ch, s.wins[ch].skip(n as int)), idx: s.idx.update(ch, i), t })),
                Dec::Err => None,
            }
        }
    }
}

/// `read_optional_field(name, default)`; os = version at which the READING definition made the field optional (0 if always)
pub open spec fn rof_step<T: BinaryDeserializer>(s: RS, h: RH, name: Seq<char>, ch: int, os: int, d: Option<Option<T::G>>) -> Option<(Option<T::G>, nat, RS)> {
    if h.removed.contains(name) { Some((None, 0nat, s)) } else {
        let i = s.idx[ch] + 1;
        if h.sv < ch {
            match d { Some(dv) => Some((dv, 0nat, RS { wins: s.wins, idx: s.idx.update(ch, i), t: s.t })), None => None }
        } else {
            match (if h.sv < os { dec_bare::<T>(s.wins[ch], s.t) } else { Option::<T>::dec(s.wins[ch], s.t) }) {
                Dec::Ok { v, n, t } => Some((v, n, RS { wins: s.wins.update(ch, s.wins[ch].skip(n as int)), idx: s.idx.update(ch, i), t })),
                Dec::Err => None,
            }
        }
    }
}

impl<'a, 'b, 'c> AdtDeserializer<'a, 'b, 'c> {
    /// abstraction: chunk c's unread bytes for the chunks the stored version has (headerless: only
    /// chunk 0, the stream itself), the counters, the table
    pub open spec fn rs(&self) -> RS {
        RS {
            wins: Seq::new(self.last_index_per_chunk@.len(), |c: int| if c <= self.stored_version && (c == 0 || !self.headerless()) { self.field_window(c) } else { Seq::<u8>::empty() }),
            idx: Seq::new(self.last_index_per_chunk@.len(), |c: int| self.last_index_per_chunk@[c] as int),
            t: self.strs(),
        }
    }
    pub open spec fn rh(&self) -> RH {
        RH { sv: self.stored_version as int, removed: self.removed_fields@, mo: self.made_optional_at@ }
    }
    /// the state a record reader works in
    pub open spec fn rwf(&self) -> bool {
        &&& self.adwf()
        &&& (self.headerless() ==> self.stored_version == 0)
    }
}

/// ghost value of a declared default
pub open spec fn gv_of<T: BinaryDeserializer>(x: T) -> T::G { x.gv() }

pub open spec fn gv_opt<T: BinaryDeserializer>(d: Option<T>) -> Option<T::G> {
    match d { Some(x) => Some(x.gv()), None => None }
}

pub open spec fn gv_opt2<T: BinaryDeserializer>(d: Option<Option<T>>) -> Option<Option<T::G>> {
    match d { Some(x) => Some(x.gv()), None => None }
}

pub broadcast proof fn lemma_rf_step<T: BinaryDeserializer>(o: &AdtDeserializer, a: &AdtDeserializer, name: Seq<char>, d: Option<T>, r: Result<T>)
    requires
        #[trigger] rf_post::<T>(o, a, name, d, r),
        o.rwf(),
        o.last_index_per_chunk@[o.metadata.chunk_of(name) as int] < 127,
    ensures
        match rf_step::<T>(o.rs(), o.rh(), name, o.metadata.chunk_of(name) as int, gv_opt(d)) {
            Some((v, n, s2)) => r is Ok && r->Ok_0.gv() == v && a.rs() == s2 && a.rh() == o.rh() && a.metadata == o.metadata
                && a.rwf() && a.headerless() == o.headerless()
                && n <= o.rs().wins[o.metadata.chunk_of(name) as int].len()
                && a.dctx().frame_eq(o.dctx()) && a.dctx().current.pos >= o.dctx().current.pos
                && (o.headerless() ==> a.dctx().remaining() =~= o.dctx().remaining().skip(n as int))
                && (!o.headerless() ==> a.dctx().remaining() == o.dctx().remaining()),
            None => r is Err,
        },
{
    reveal(rf_post);
    let ch = o.metadata.chunk_of(name) as int;
    if !o.removed_fields@.contains(name) {
        match rf_step::<T>(o.rs(), o.rh(), name, ch, gv_opt(d)) {
            Some((v, n, s2)) => {
                assert(a.rs().idx =~= s2.idx);
                assert(a.rs().wins =~~= s2.wins);
            }
            None => {}
        }
    }
}

pub broadcast proof fn lemma_rof_step<T: BinaryDeserializer>(o: &AdtDeserializer, a: &AdtDeserializer, name: Seq<char>, d: Option<Option<T>>, r: Result<Option<T>>)
    requires
        #[trigger] rof_post::<T>(o, a, name, d, r),
        o.rwf(),
        o.last_index_per_chunk@[o.metadata.chunk_of(name) as int] < 127,
    ensures
        match rof_step::<T>(o.rs(), o.rh(), name, o.metadata.chunk_of(name) as int, o.opt_since(name) as int, gv_opt2(d)) {
            Some((v, n, s2)) => r is Ok && r->Ok_0.gv() == v && a.rs() == s2 && a.rh() == o.rh() && a.metadata == o.metadata
                && a.rwf() && a.headerless() == o.headerless()
                && n <= o.rs().wins[o.metadata.chunk_of(name) as int].len()
                && a.dctx().frame_eq(o.dctx()) && a.dctx().current.pos >= o.dctx().current.pos
                && (o.headerless() ==> a.dctx().remaining() =~= o.dctx().remaining().skip(n as int))
                && (!o.headerless() ==> a.dctx().remaining() == o.dctx().remaining()),
            None => r is Err,
        },
{
    reveal(rof_post);
    let ch = o.metadata.chunk_of(name) as int;
    match rof_step::<T>(o.rs(), o.rh(), name, ch, o.opt_since(name) as int, gv_opt2(d)) {
        Some((v, n, s2)) => {
            assert(a.rs().idx =~= s2.idx);
            assert(a.rs().wins =~~= s2.wins);
        }
        None => {}
    }
}
