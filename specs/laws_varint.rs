// ---------------------------------------------------------------------------------------
// laws_varint.rs -- C11 at property level: for all 2^32 values, read(write(x) ++ suffix) == x,
// consuming exactly |write(x)| bytes; |write(x)| is minimal; continuation bits are right.
// Stated over the *definitions* leb / zz / unleb_* (format.rs), which the contracts of the
// real write_var_* / read_var_* refer to.
// ---------------------------------------------------------------------------------------

/// number of significant bits, by value
pub open spec fn min_groups(v: u32) -> nat {
    if v < 0x80 { 1 } else if v < 0x4000 { 2 } else if v < 0x20_0000 { 3 } else if v < 0x1000_0000 { 4 } else { 5 }
}

//@lemma C11 C04
pub proof fn lemma_leb_len_minimal(v: u32)
    ensures
        leb(v as nat).len() == min_groups(v),
        1 <= leb(v as nat).len() <= 5,
        forall|i: int| 0 <= i < leb(v as nat).len() - 1 ==> cont(#[trigger] leb(v as nat)[i]),
        !cont(leb(v as nat).last()),
{
    lemma_leb_mirror(v);
    assert(v >> 7 == 0 <==> v < 0x80) by (bit_vector);
    assert(v >> 14 == 0 <==> v < 0x4000) by (bit_vector);
    assert(v >> 21 == 0 <==> v < 0x20_0000) by (bit_vector);
    assert(v >> 28 == 0 <==> v < 0x1000_0000) by (bit_vector);
    assert((((v & 0x7F) | 0x80) as u8) & 0x80 != 0) by (bit_vector);
    assert((((v >> 7) | 0x80) as u8) & 0x80 != 0) by (bit_vector);
    assert((((v >> 14) | 0x80) as u8) & 0x80 != 0) by (bit_vector);
    assert((((v >> 21) | 0x80) as u8) & 0x80 != 0) by (bit_vector);
    assert(v >> 7 == 0 ==> (v as u8) & 0x80 == 0) by (bit_vector);
    assert(v >> 14 == 0 ==> ((v >> 7) as u8) & 0x80 == 0) by (bit_vector);
    assert(v >> 21 == 0 ==> ((v >> 14) as u8) & 0x80 == 0) by (bit_vector);
    assert(v >> 28 == 0 ==> ((v >> 21) as u8) & 0x80 == 0) by (bit_vector);
    assert(((v >> 28) as u8) & 0x80 == 0) by (bit_vector);
    let s = leb_mirror(v);
    assert(s =~= leb(v as nat));
}

//@lemma C11 C04 C07
pub proof fn lemma_leb_roundtrip(v: u32, suffix: Seq<u8>)
    ensures
        unleb_res(leb(v as nat) + suffix) == Ok::<u32, Error>(v),
        unleb_used(leb(v as nat) + suffix) == leb(v as nat).len(),
{
    lemma_leb_mirror(v);
    lemma_leb_len_minimal(v);
    let e = leb(v as nat);
    let s = e + suffix;
    assert(forall|i: int| 0 <= i < e.len() ==> s[i] == e[i]);
    assert(e =~= leb_mirror(v));
    let b0 = ((v & 0x7F) | 0x80) as u8;
    let b1 = ((v >> 7) | 0x80) as u8;
    let b2 = ((v >> 14) | 0x80) as u8;
    let b3 = ((v >> 21) | 0x80) as u8;
    if v >> 7 == 0 {
        assert(((v as u8) & 0x7F) as u32 == v) by (bit_vector) requires v >> 7 == 0;
    } else if v >> 14 == 0 {
        assert(((b0 & 0x7F) as u32) | ((((v >> 7) as u8) & 0x7F) as u32) << 7 == v) by (bit_vector)
            requires v >> 14 == 0, b0 == ((v & 0x7F) | 0x80) as u8;
    } else if v >> 21 == 0 {
        assert(((b0 & 0x7F) as u32) | (((b1 & 0x7F) as u32) << 7) | ((((v >> 14) as u8) & 0x7F) as u32) << 14 == v) by (bit_vector)
            requires v >> 21 == 0, b0 == ((v & 0x7F) | 0x80) as u8, b1 == ((v >> 7) | 0x80) as u8;
    } else if v >> 28 == 0 {
        assert(((b0 & 0x7F) as u32) | (((b1 & 0x7F) as u32) << 7) | (((b2 & 0x7F) as u32) << 14) | ((((v >> 21) as u8) & 0x7F) as u32) << 21 == v) by (bit_vector)
            requires v >> 28 == 0, b0 == ((v & 0x7F) | 0x80) as u8, b1 == ((v >> 7) | 0x80) as u8, b2 == ((v >> 14) | 0x80) as u8;
    } else {
        assert(((b0 & 0x7F) as u32) | (((b1 & 0x7F) as u32) << 7) | (((b2 & 0x7F) as u32) << 14) | (((b3 & 0x7F) as u32) << 21) | ((((v >> 28) as u8) & 0x7F) as u32) << 28 == v) by (bit_vector)
            requires b0 == ((v & 0x7F) | 0x80) as u8, b1 == ((v >> 7) | 0x80) as u8, b2 == ((v >> 14) | 0x80) as u8, b3 == ((v >> 21) | 0x80) as u8;
    }
}

//@lemma C11
pub proof fn lemma_zz_bijection(i: i32)
    ensures
        zz(i as int) <= u32::MAX,
        unzz(zz(i as int)) == i as int,
        // small magnitudes stay short: |i| < 64 needs one byte
        (-64 <= i < 64) ==> zz(i as int) < 128,
{
}

//@lemma C11 C04 C07
pub proof fn lemma_var_i32_roundtrip(i: i32, suffix: Seq<u8>)
    ensures
        unvar_i32_res(var_i32(i as int) + suffix) == Ok::<i32, Error>(i),
        unleb_used(var_i32(i as int) + suffix) == var_i32(i as int).len(),
        1 <= var_i32(i as int).len() <= 5,
{
    lemma_zz_bijection(i);
    let z = zz(i as int) as u32;
    lemma_leb_roundtrip(z, suffix);
    lemma_leb_len_minimal(z);
}

// spec anchors (vacuity guard 2.3): the definitions agree with independent byte vectors
//@lemma C11 C04
pub proof fn lemma_varint_anchors()
    ensures
        leb(300) =~= seq![0xACu8, 0x02u8],
        leb(0) =~= seq![0u8],
        leb(127) =~= seq![0x7Fu8],
        leb(128) =~= seq![0x80u8, 0x01u8],
        var_i32(-1) =~= seq![0x01u8],
        var_i32(1) =~= seq![0x02u8],
        var_i32(-2) =~= seq![0x03u8],
        leb(0xFFFF_FFFF) =~= seq![0xFFu8, 0xFFu8, 0xFFu8, 0xFFu8, 0x0Fu8],
{
    reveal_with_fuel(leb, 6);
}
