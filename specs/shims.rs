// ---------------------------------------------------------------------------------------
// shims.rs -- rule E7: same-named stand-ins for types of OTHER crates, with ASSUMED
// contracts over a ghost view.  Nothing here is proved; every item is reported by the
// assumption scan.  Method-call syntax in the extracted bodies is untouched.
// ---------------------------------------------------------------------------------------

/// ghost key of a hashable exec type (what equality/hashing observes)
pub trait Key {
    type G;
    spec fn g(&self) -> Self::G;
}
impl Key for String { type G = Seq<char>; open spec fn g(&self) -> Seq<char> { self@ } }
impl Key for str { type G = Seq<char>; open spec fn g(&self) -> Seq<char> { self@ } }
impl Key for u8 { type G = int; open spec fn g(&self) -> int { *self as int } }
impl Key for StringId { type G = int; open spec fn g(&self) -> int { self.0 as int } }
impl Key for RefId { type G = int; open spec fn g(&self) -> int { self.0 as int } }

/// `*const dyn Any` of state.rs / serializer (E7 type substitution): an opaque address
#[verifier::external_body]
#[derive(Copy, Clone)]
pub struct AnyPtr { p: usize }
impl AnyPtr {
    pub uninterp spec fn addr(&self) -> int;

    // TRUSTED[D20]: `unsafe { ptr.as_ref() }` -- the registered object is assumed to be alive and
    // the pointer non-null; no caller contract can establish this (lifetime erased in store_ref)
    #[verifier::external_body]
    pub fn as_ref(&self) -> (r: Option<&AnyPtr>)
        ensures r matches Some(p) && p.addr() == self.addr(),
    { unimplemented!() }
}
impl Key for AnyPtr { type G = int; open spec fn g(&self) -> int { self.addr() } }

// ---- hashbrown::HashMap
#[verifier::external_body]
#[verifier::reject_recursive_types(K)]
#[verifier::reject_recursive_types(V)]
pub struct HashMap<K, V> { k: core::marker::PhantomData<(K, V)> }

#[verifier::reject_recursive_types(K)]
#[verifier::reject_recursive_types(V)]
pub enum Entry<'a, K, V> {
    Occupied(OccupiedEntry<'a, K, V>),
    Vacant(VacantEntry<'a, K, V>),
}
#[verifier::external_body]
#[verifier::reject_recursive_types(K)]
#[verifier::reject_recursive_types(V)]
pub struct OccupiedEntry<'a, K, V> { k: core::marker::PhantomData<&'a mut (K, V)> }
#[verifier::external_body]
#[verifier::reject_recursive_types(K)]
#[verifier::reject_recursive_types(V)]
pub struct VacantEntry<'a, K, V> { k: core::marker::PhantomData<&'a mut (K, V)> }

impl<'a, K: Key, V> OccupiedEntry<'a, K, V> {
    pub uninterp spec fn value(&self) -> V;
    #[verifier::external_body]
    pub fn get(&self) -> (r: &V) ensures *r == self.value() { unimplemented!() }
}
impl<'a, K: Key, V> VacantEntry<'a, K, V> {
    pub uninterp spec fn key_g(&self) -> K::G;
    /// prophecy: the value this entry will be filled with (None if dropped unfilled)
    pub uninterp spec fn filled(&self) -> Option<V>;
    #[verifier::external_body]
    pub fn key(&self) -> (r: &K) ensures r.g() == self.key_g() { unimplemented!() }
    #[verifier::external_body]
    pub fn insert(self, value: V) ensures self.filled() == Some(value) { unimplemented!() }
}

impl<'a, K: Key, V> Entry<'a, K, V> {
    /// `or_insert`, read-only: the real function returns `&mut V`; code that writes through the
    /// result does not type-check against this shim (and is then undecided, never accepted)
    #[verifier::external_body]
    pub fn or_insert(self, default: V) -> (r: &'a V)
        ensures
            match self {
                Entry::Occupied(o) => *r == o.value(),
                Entry::Vacant(v) => *r == default && v.filled() == Some(default),
            },
    { unimplemented!() }
}

impl<K: Key, V> HashMap<K, V> {
    pub uninterp spec fn view(&self) -> Map<K::G, V>;

    #[verifier::external_body]
    pub fn new() -> (r: Self) ensures r@ == Map::<K::G, V>::empty() { unimplemented!() }

    #[verifier::external_body]
    pub fn get<Q: Key<G = K::G> + ?Sized>(&self, k: &Q) -> (r: Option<&V>)
        ensures match r { Some(v) => self@.contains_key(k.g()) && *v == self@[k.g()], None => !self@.contains_key(k.g()) }
    { unimplemented!() }

    #[verifier::external_body]
    pub fn contains_key<Q: Key<G = K::G> + ?Sized>(&self, k: &Q) -> (r: bool)
        ensures r == self@.contains_key(k.g())
    { unimplemented!() }

    #[verifier::external_body]
    pub fn insert(&mut self, k: K, v: V) -> (r: Option<V>)
        ensures final(self)@ == old(self)@.insert(k.g(), v)
    { unimplemented!() }

    #[verifier::external_body]
    pub fn entry(&mut self, key: K) -> (e: Entry<'_, K, V>)
        ensures
            match e {
                Entry::Occupied(o) => old(self)@.contains_key(key.g()) && o.value() == old(self)@[key.g()] && final(self)@ == old(self)@,
                Entry::Vacant(v) => !old(self)@.contains_key(key.g()) && v.key_g() == key.g()
                    && final(self)@ == (match v.filled() { Some(x) => old(self)@.insert(key.g(), x), None => old(self)@ }),
            }
    { unimplemented!() }
}

// ---- hashbrown::HashSet
#[verifier::external_body]
#[verifier::reject_recursive_types(K)]
pub struct HashSet<K> { k: core::marker::PhantomData<K> }

impl<K: Key> HashSet<K> {
    pub uninterp spec fn view(&self) -> Set<K::G>;

    #[verifier::external_body]
    pub fn new() -> (r: Self) ensures r@ == Set::<K::G>::empty() { unimplemented!() }

    #[verifier::external_body]
    pub fn contains<Q: Key<G = K::G> + ?Sized>(&self, k: &Q) -> (r: bool)
        ensures r == self@.contains(k.g())
    { unimplemented!() }

    #[verifier::external_body]
    pub fn insert(&mut self, k: K) -> (r: bool)
        ensures final(self)@ == old(self)@.insert(k.g())
    { unimplemented!() }
}

// ---- std functions vstd has no specification for (assumed, E7)
pub mod ux {
use vstd::prelude::*;
/// UTF-8 encoding / validation: vstd's own definitions (vstd::utf8); the two facts below are
/// PROVED from vstd's lemmas, not assumed.
pub open spec fn utf8(s: Seq<char>) -> Seq<u8> {
    vstd::utf8::encode_utf8(s)
}

pub open spec fn utf8_dec(b: Seq<u8>) -> Option<Seq<char>> {
    if vstd::utf8::valid_utf8(b) { Some(vstd::utf8::decode_utf8(b)) } else { None }
}

pub broadcast proof fn axiom_utf8_roundtrip(s: Seq<char>)
    ensures
        #[trigger] utf8_dec(utf8(s)) == Some(s),
{
    vstd::utf8::encode_utf8_valid_utf8(s);
    vstd::utf8::encode_utf8_decode_utf8(s);
}

pub broadcast proof fn axiom_utf8_dec_inj(b: Seq<u8>)
    ensures
        (#[trigger] utf8_dec(b)) matches Some(s) ==> utf8(s) == b,
{
    if vstd::utf8::valid_utf8(b) {
        vstd::utf8::decode_utf8_encode_utf8(b);
    }
}

}
pub use ux::*;

pub assume_specification[ String::as_bytes ](s: &String) -> (r: &[u8])
    ensures
        r@ == utf8(s@),
;

#[verifier::external_type_specification]
#[verifier::external_body]
pub struct ExFromUtf8Error(FromUtf8Error);

pub assume_specification[ String::from_utf8 ](v: Vec<u8>) -> (r: core::result::Result<String, std::string::FromUtf8Error>)
    ensures
        match r {
            Ok(s) => utf8_dec(v@) == Some(s@),
            Err(_) => utf8_dec(v@) is None,
        },
;

// ---- std::time::Duration
pub uninterp spec fn dur_secs(d: Duration) -> u64;
pub uninterp spec fn dur_nanos(d: Duration) -> u32;

pub assume_specification[ Duration::as_secs ](d: &Duration) -> (r: u64)
    ensures
        r == dur_secs(*d),
;

pub assume_specification[ Duration::subsec_nanos ](d: &Duration) -> (r: u32)
    ensures
        r == dur_nanos(*d),
        r < 1_000_000_000,
;

// ---- bytes::Bytes
#[verifier::external_body]
pub struct Bytes { b: Vec<u8> }

impl View for Bytes {
    type V = Seq<u8>;
    uninterp spec fn view(&self) -> Seq<u8>;
}

impl Bytes {
    #[verifier::external_body]
    pub fn len(&self) -> (r: usize) ensures r == self@.len() { unimplemented!() }

    #[verifier::external_body]
    pub fn from(v: Vec<u8>) -> (r: Bytes) ensures r@ == v@ { unimplemented!() }
}

impl core::ops::Deref for Bytes {
    type Target = [u8];
    #[verifier::external_body]
    fn deref(&self) -> (r: &[u8]) ensures r@ == self@ { unimplemented!() }
}

pub assume_specification[ i32::wrapping_neg ](x: i32) -> (r: i32)
    ensures
        x != i32::MIN ==> r == -x,
        x == i32::MIN ==> r == i32::MIN,
;

// used at T = u8 only
pub assume_specification<T: Clone>[ <[T]>::to_vec ](s: &[T]) -> (r: Vec<T>)
    ensures
        r@ =~= s@,
;

/// std: `Option<&T>::copied` (not in this vstd); lets refactorings that use it be decided
pub assume_specification<'a, T: Copy>[ Option::<&'a T>::copied ](o: Option<&'a T>) -> (r: Option<T>)
    ensures
        r == (match o { Some(x) => Some(*x), None => None }),
;

pub assume_specification[ i8::unsigned_abs ](x: i8) -> (r: u8)
    ensures
        r as int == (if x >= 0 { x as int } else { -(x as int) }),
;

// ---- std::collections::BTreeMap (only new / insert / contains_key are used)
#[verifier::external_body]
#[verifier::reject_recursive_types(K)]
#[verifier::reject_recursive_types(V)]
pub struct BTreeMap<K, V> { k: core::marker::PhantomData<(K, V)> }

impl<K: Key, V> BTreeMap<K, V> {
    pub uninterp spec fn view(&self) -> Map<K::G, V>;

    #[verifier::external_body]
    pub fn new() -> (r: Self) ensures r@ == Map::<K::G, V>::empty() { unimplemented!() }

    #[verifier::external_body]
    pub fn insert(&mut self, k: K, v: V) -> (r: Option<V>)
        ensures final(self)@ == old(self)@.insert(k.g(), v)
    { unimplemented!() }

    #[verifier::external_body]
    pub fn contains_key(&self, k: &K) -> (r: bool)
        ensures r == self@.contains_key(k.g())
    { unimplemented!() }
}

impl<K: Key, V> HashMap<K, V> {
    #[verifier::external_body]
    pub fn get_mut<Q: Key<G = K::G> + ?Sized>(&mut self, k: &Q) -> (r: Option<&mut V>)
        ensures
            match r {
                Some(v) => old(self)@.contains_key(k.g()) && *v == old(self)@[k.g()] && final(self)@ == old(self)@.insert(k.g(), *final(v)),
                None => !old(self)@.contains_key(k.g()) && final(self)@ == old(self)@,
            },
    { unimplemented!() }
}

// ---- bytes::BytesMut (E7): a growable byte buffer
#[verifier::external_body]
pub struct BytesMut { b: Vec<u8> }

impl View for BytesMut {
    type V = Seq<u8>;
    uninterp spec fn view(&self) -> Seq<u8>;
}

impl BytesMut {
    #[verifier::external_body]
    pub fn with_capacity(n: usize) -> (r: BytesMut) ensures r@ == Seq::<u8>::empty() { unimplemented!() }

    #[verifier::external_body]
    pub fn put_u8(&mut self, v: u8) ensures final(self)@ == old(self)@.push(v) { unimplemented!() }

    #[verifier::external_body]
    pub fn put_slice(&mut self, s: &[u8]) ensures final(self)@ == old(self)@ + s@ { unimplemented!() }

    #[verifier::external_body]
    pub fn freeze(self) -> (r: Bytes) ensures r@ == self@ { unimplemented!() }
}

// ---- flate2 (E7): raw deflate is two uninterpreted functions; the ONLY assumed fact is the
// ---- round trip inflate(deflate(d, level)) == Some(d).  miniz_oxide itself is not verified.
pub uninterp spec fn deflate_spec(d: Seq<u8>, level: int) -> Seq<u8>;
pub uninterp spec fn inflate_spec(z: Seq<u8>) -> Option<Seq<u8>>;

// ASSUMPTION[flate2-roundtrip]
pub broadcast proof fn axiom_flate2_roundtrip(d: Seq<u8>, level: int)
    ensures
        #[trigger] inflate_spec(deflate_spec(d, level)) == Some(d),
{
    admit();
}

#[verifier::external_body]
#[derive(Copy, Clone)]
pub struct Compression { l: u32 }
impl Compression {
    pub uninterp spec fn level(&self) -> int;
}

#[verifier::external_body]
pub struct IoError { e: u8 }

#[verifier::external_body]
pub struct DeflateEncoder<'a> { r: &'a [u8] }
impl<'a> DeflateEncoder<'a> {
    pub uninterp spec fn src(&self) -> Seq<u8>;
    pub uninterp spec fn lvl(&self) -> int;
    #[verifier::external_body]
    pub fn new(r: &'a [u8], level: Compression) -> (e: Self) ensures e.src() == r@, e.lvl() == level.level() { unimplemented!() }
    /// io::Read::read_to_end: appends the whole compressed stream (reading from a slice cannot fail,
    /// but the io::Result is kept: Ok appends deflate(src), Err leaves buf's content unspecified)
    #[verifier::external_body]
    pub fn read_to_end(&mut self, buf: &mut Vec<u8>) -> (r: core::result::Result<usize, IoError>)
        ensures r is Ok ==> final(buf)@ == old(buf)@ + deflate_spec(old(self).src(), old(self).lvl()),
    { unimplemented!() }
}

#[verifier::external_body]
pub struct DeflateDecoder<'a> { r: &'a [u8] }
impl<'a> DeflateDecoder<'a> {
    pub uninterp spec fn src(&self) -> Seq<u8>;
    #[verifier::external_body]
    pub fn new(r: &'a [u8]) -> (e: Self) ensures e.src() == r@ { unimplemented!() }
    /// Ok appends the inflated content (which then exists), Err on a corrupt stream; never panics (assumed)
    #[verifier::external_body]
    pub fn read_to_end(&mut self, buf: &mut Vec<u8>) -> (r: core::result::Result<usize, IoError>)
        ensures
            r is Ok <==> inflate_spec(old(self).src()) is Some,
            r is Ok ==> final(buf)@ == old(buf)@ + inflate_spec(old(self).src())->Some_0,
    { unimplemented!() }
}

/// E11: decoder-side pre-allocation from an untrusted length goes through this budgeted wrapper
/// (body = Vec::with_capacity); the precondition is the C16/C05 allocation rule.
#[verifier::external_body]
pub fn with_capacity_budget(n: usize) -> (v: Vec<u8>)
    requires n <= 65536,
    ensures v@ == Seq::<u8>::empty(),
{ Vec::with_capacity(n) }

// ---- castaway::cast! (E17): type specialisation of the containers on the byte element type.
// ASSUMPTION[castaway]: `cast!(x, &[u8])` on `x: &[T]` is Ok exactly when T is u8 (then the same
// slice), otherwise Err(x) -- stated through the trait spec fn `is_byte()`, true only in the u8 impl.
#[verifier::external_body]
pub fn cast_slice_u8<T: BinarySerializer>(s: &[T]) -> (r: core::result::Result<&[u8], &[T]>)
    ensures
        r is Ok <==> T::is_byte(),
        r is Ok ==> r->Ok_0@ =~= seq_bytes(s@),
        r is Err ==> r->Err_0@ == s@,
{
    unimplemented!()
}

#[verifier::external_body]
pub fn cast_array_u8<T: BinarySerializer, const L: usize>(s: &[T; L]) -> (r: core::result::Result<&[u8; L], &[T; L]>)
    ensures
        r is Ok <==> T::is_byte(),
        r is Ok ==> r->Ok_0@ =~= seq_bytes(s@),
        r is Err ==> r->Err_0@ == s@,
{
    unimplemented!()
}
