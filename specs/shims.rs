// ---------------------------------------------------------------------------------------
// shims.rs -- rule E7: same-named stand-ins for types of OTHER crates, with ASSUMED
// contracts over a ghost view.  Nothing here is proved; every item is reported by the
// assumption scan.  Method-call syntax in the extracted bodies is untouched.
// ---------------------------------------------------------------------------------------

/// ghost key of a hashable exec type (what equality/hashing observes)
pub trait Key {
    type G;
    spec fn g(&self) -> Self::G;
}
impl Key for String { type G = Seq<char>; open spec fn g(&self) -> Seq<char> { self@ } }
impl Key for str { type G = Seq<char>; open spec fn g(&self) -> Seq<char> { self@ } }
impl Key for u8 { type G = int; open spec fn g(&self) -> int { *self as int } }
impl Key for StringId { type G = int; open spec fn g(&self) -> int { self.0 as int } }
impl Key for RefId { type G = int; open spec fn g(&self) -> int { self.0 as int } }

/// `*const dyn Any` of state.rs / serializer (E7 type substitution): an opaque address
#[verifier::external_body]
#[derive(Copy, Clone)]
pub struct AnyPtr { p: usize }
impl AnyPtr {
    pub uninterp spec fn addr(&self) -> int;
}
impl Key for AnyPtr { type G = int; open spec fn g(&self) -> int { self.addr() } }

// ---- hashbrown::HashMap
#[verifier::external_body]
#[verifier::reject_recursive_types(K)]
#[verifier::reject_recursive_types(V)]
pub struct HashMap<K, V> { k: core::marker::PhantomData<(K, V)> }

#[verifier::reject_recursive_types(K)]
#[verifier::reject_recursive_types(V)]
pub enum Entry<'a, K, V> {
    Occupied(OccupiedEntry<'a, K, V>),
    Vacant(VacantEntry<'a, K, V>),
}
#[verifier::external_body]
#[verifier::reject_recursive_types(K)]
#[verifier::reject_recursive_types(V)]
pub struct OccupiedEntry<'a, K, V> { k: core::marker::PhantomData<&'a mut (K, V)> }
#[verifier::external_body]
#[verifier::reject_recursive_types(K)]
#[verifier::reject_recursive_types(V)]
pub struct VacantEntry<'a, K, V> { k: core::marker::PhantomData<&'a mut (K, V)> }

impl<'a, K: Key, V> OccupiedEntry<'a, K, V> {
    pub uninterp spec fn value(&self) -> V;
    #[verifier::external_body]
    pub fn get(&self) -> (r: &V) ensures *r == self.value() { unimplemented!() }
}
impl<'a, K: Key, V> VacantEntry<'a, K, V> {
    pub uninterp spec fn key_g(&self) -> K::G;
    /// prophecy: the value this entry will be filled with (None if dropped unfilled)
    pub uninterp spec fn filled(&self) -> Option<V>;
    #[verifier::external_body]
    pub fn key(&self) -> (r: &K) ensures r.g() == self.key_g() { unimplemented!() }
    #[verifier::external_body]
    pub fn insert(self, value: V) ensures self.filled() == Some(value) { unimplemented!() }
}

impl<K: Key, V> HashMap<K, V> {
    pub uninterp spec fn view(&self) -> Map<K::G, V>;

    #[verifier::external_body]
    pub fn new() -> (r: Self) ensures r@ == Map::<K::G, V>::empty() { unimplemented!() }

    #[verifier::external_body]
    pub fn get<Q: Key<G = K::G> + ?Sized>(&self, k: &Q) -> (r: Option<&V>)
        ensures match r { Some(v) => self@.contains_key(k.g()) && *v == self@[k.g()], None => !self@.contains_key(k.g()) }
    { unimplemented!() }

    #[verifier::external_body]
    pub fn contains_key<Q: Key<G = K::G> + ?Sized>(&self, k: &Q) -> (r: bool)
        ensures r == self@.contains_key(k.g())
    { unimplemented!() }

    #[verifier::external_body]
    pub fn insert(&mut self, k: K, v: V) -> (r: Option<V>)
        ensures final(self)@ == old(self)@.insert(k.g(), v)
    { unimplemented!() }

    #[verifier::external_body]
    pub fn entry(&mut self, key: K) -> (e: Entry<'_, K, V>)
        ensures
            match e {
                Entry::Occupied(o) => old(self)@.contains_key(key.g()) && o.value() == old(self)@[key.g()] && final(self)@ == old(self)@,
                Entry::Vacant(v) => !old(self)@.contains_key(key.g()) && v.key_g() == key.g()
                    && final(self)@ == (match v.filled() { Some(x) => old(self)@.insert(key.g(), x), None => old(self)@ }),
            }
    { unimplemented!() }
}

// ---- hashbrown::HashSet
#[verifier::external_body]
#[verifier::reject_recursive_types(K)]
pub struct HashSet<K> { k: core::marker::PhantomData<K> }

impl<K: Key> HashSet<K> {
    pub uninterp spec fn view(&self) -> Set<K::G>;

    #[verifier::external_body]
    pub fn new() -> (r: Self) ensures r@ == Set::<K::G>::empty() { unimplemented!() }

    #[verifier::external_body]
    pub fn contains<Q: Key<G = K::G> + ?Sized>(&self, k: &Q) -> (r: bool)
        ensures r == self@.contains(k.g())
    { unimplemented!() }

    #[verifier::external_body]
    pub fn insert(&mut self, k: K) -> (r: bool)
        ensures final(self)@ == old(self)@.insert(k.g())
    { unimplemented!() }
}
