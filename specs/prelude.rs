// ---------------------------------------------------------------------------------------
// prelude.rs -- hand-written, NOT extracted.  Mirrors of crate-level items that carry no
// logic (Error, Result, id newtypes are extracted, see the unit file), the views shared by
// all contracts, and shims with ASSUMED contracts for other crates (rule E7).
// Everything marked external_body / assume_specification / uninterp here is an assumption and
// is listed by the assumption scan of ./check.
// ---------------------------------------------------------------------------------------

pub type Result<T> = core::result::Result<T, Error>;

/// E6: `assert_eq!(a, b)` is rewritten to `if !(a == b) { vpanic() }`; proving the call
/// unreachable is the obligation that the assertion cannot fire.
pub fn vpanic()
    requires false,
{
}

// ------------------------------------------------------------------ sink view (DESIGN 4.1)
/// One frame of pending output below the frame currently written to.
pub ghost struct Frame {
    pub len: nat,
    pub keeps: bool,
    pub bytes: Seq<u8>,
}

/// Everything of a sink that a write must leave untouched.
pub ghost struct Rest {
    pub lower: Seq<Frame>,
    pub strs: Seq<Seq<char>>,
    pub refs: Seq<int>,
}

pub open spec fn rest0() -> Rest {
    Rest { lower: Seq::empty(), strs: Seq::empty(), refs: Seq::empty() }
}

/// vacuity probe of the negated run (tools/rx.py --negate): never provable unless a function's
/// assumptions are contradictory
pub uninterp spec fn vac_probe(k: int) -> bool;
