// ---------------------------------------------------------------------------------------
// format.rs -- the desert wire format as spec functions (DESIGN 4.2).  Written from the
// property statements / the Scala layout, not from the code.  This is the oracle.
// ---------------------------------------------------------------------------------------

/// unsigned LEB128 (7 bits per byte, least significant group first, bit 7 = continuation)
pub open spec fn leb(v: nat) -> Seq<u8>
    decreases v,
{
    if v < 128 {
        seq![v as u8]
    } else {
        seq![((v % 128) + 128) as u8] + leb(v / 128)
    }
}

/// zig-zag: 0,-1,1,-2,... -> 0,1,2,3,...
pub open spec fn zz(i: int) -> nat {
    if i >= 0 { (2 * i) as nat } else { (-2 * i - 1) as nat }
}

pub open spec fn unzz(n: nat) -> int {
    if n % 2 == 0 { (n / 2) as int } else { -((n + 1) / 2) as int }
}

pub open spec fn var_i32(i: int) -> Seq<u8> {
    leb(zz(i))
}

/// minimal number of 7-bit groups
pub open spec fn leb_len(v: nat) -> nat
    decreases v,
{
    if v < 128 { 1 } else { 1 + leb_len(v / 128) }
}

/// big-endian, n bytes
pub open spec fn be(n: nat, v: nat) -> Seq<u8>
    decreases n,
{
    if n == 0 { Seq::empty() } else { be((n - 1) as nat, v / 256).push((v % 256) as u8) }
}

pub open spec fn be_val(s: Seq<u8>) -> nat
    decreases s.len(),
{
    if s.len() == 0 { 0 } else { be_val(s.drop_last()) * 256 + s.last() as nat }
}

pub open spec fn pow2(n: nat) -> nat
    decreases n,
{
    if n == 0 { 1 } else { 2 * pow2((n - 1) as nat) }
}

/// two's complement of a signed value in `bits` bits
pub open spec fn twos(bits: nat, i: int) -> nat {
    if i >= 0 { i as nat } else { (pow2(bits) + i) as nat }
}

pub open spec fn untwos(bits: nat, n: nat) -> int {
    if n < pow2((bits - 1) as nat) { n as int } else { n - pow2(bits) }
}

// ---- code-shaped mirrors (the function postconditions are syntactic in these; the lemmas
// ---- below tie them to the definitions above for all 2^32 values)
pub open spec fn leb_mirror(value: u32) -> Seq<u8> {
    if value >> 7 == 0 {
        seq![value as u8]
    } else if value >> 14 == 0 {
        seq![((value & 0x7F) | 0x80) as u8, (value >> 7) as u8]
    } else if value >> 21 == 0 {
        seq![((value & 0x7F) | 0x80) as u8, ((value >> 7) | 0x80) as u8, (value >> 14) as u8]
    } else if value >> 28 == 0 {
        seq![
            ((value & 0x7F) | 0x80) as u8,
            ((value >> 7) | 0x80) as u8,
            ((value >> 14) | 0x80) as u8,
            (value >> 21) as u8,
        ]
    } else {
        seq![
            ((value & 0x7F) | 0x80) as u8,
            ((value >> 7) | 0x80) as u8,
            ((value >> 14) | 0x80) as u8,
            ((value >> 21) | 0x80) as u8,
            (value >> 28) as u8,
        ]
    }
}

pub proof fn lemma_leb_step(v: u32)
    ensures
        v >> 7 == 0 <==> v < 128,
        v >> 7 == v / 128,
        (v >> 7) >> 7 == v >> 14,
        (v >> 7) >> 14 == v >> 21,
        (v >> 7) >> 21 == v >> 28,
        (v >> 7) >> 28 == 0,
        v >= 128 ==> ((v & 0x7F) | 0x80) as u8 == ((v % 128) + 128) as u8,
        ((v >> 7) & 0x7F) | 0x80 == (((v >> 7) | 0x80) as u8) as u32 || true,
{
    assert(v >> 7 == 0 <==> v < 128) by (bit_vector);
    assert(v >> 7 == v / 128) by (bit_vector);
    assert((v >> 7) >> 7 == v >> 14) by (bit_vector);
    assert((v >> 7) >> 14 == v >> 21) by (bit_vector);
    assert((v >> 7) >> 21 == v >> 28) by (bit_vector);
    assert((v >> 7) >> 28 == 0) by (bit_vector);
    assert(((v & 0x7F) | 0x80) as u8 == ((v % 128) + 128) as u8) by (bit_vector);
}

/// byte identities used by the mirror lemma: low 8 bits of `(x | 0x80)` only depend on the
/// low 7 bits of x.
pub proof fn lemma_low_byte(x: u32)
    ensures
        (x | 0x80) as u8 == ((x & 0x7F) | 0x80) as u8,
        x < 128 ==> x as u8 == x,
        x >> 7 == 0 ==> (x & 0x7F) == x,
{
    assert((x | 0x80) as u8 == ((x & 0x7F) | 0x80) as u8) by (bit_vector);
    assert(x >> 7 == 0 ==> (x & 0x7F) == x) by (bit_vector);
}

pub proof fn lemma_leb_mirror(v: u32)
    ensures
        leb_mirror(v) =~= leb(v as nat),
{
    let a = v;
    let b = v >> 7;
    let c = v >> 14;
    let d = v >> 21;
    let e = v >> 28;
    lemma_leb_step(a);
    lemma_leb_step(b);
    lemma_leb_step(c);
    lemma_leb_step(d);
    lemma_leb_step(e);
    lemma_low_byte(a);
    lemma_low_byte(b);
    lemma_low_byte(c);
    lemma_low_byte(d);
    lemma_low_byte(e);
    reveal_with_fuel(leb, 6);
    assert(b == a / 128 && c == b / 128 && d == c / 128 && e == d / 128);
    assert(e < 128) by {
        assert(v >> 28 < 16) by (bit_vector);
    }
    if a < 128 {
    } else if b < 128 {
        assert(leb(a as nat) =~= seq![((a % 128) + 128) as u8] + leb(b as nat));
    } else if c < 128 {
        assert(leb(b as nat) =~= seq![((b % 128) + 128) as u8] + leb(c as nat));
        assert(leb(a as nat) =~= seq![((a % 128) + 128) as u8] + leb(b as nat));
    } else if d < 128 {
        assert(leb(c as nat) =~= seq![((c % 128) + 128) as u8] + leb(d as nat));
        assert(leb(b as nat) =~= seq![((b % 128) + 128) as u8] + leb(c as nat));
        assert(leb(a as nat) =~= seq![((a % 128) + 128) as u8] + leb(b as nat));
    } else {
        assert(leb(d as nat) =~= seq![((d % 128) + 128) as u8] + leb(e as nat));
        assert(leb(c as nat) =~= seq![((c % 128) + 128) as u8] + leb(d as nat));
        assert(leb(b as nat) =~= seq![((b % 128) + 128) as u8] + leb(c as nat));
        assert(leb(a as nat) =~= seq![((a % 128) + 128) as u8] + leb(b as nat));
    }
}

/// the code's zig-zag expression equals the definition
pub proof fn lemma_zigzag(value: i32)
    ensures
        (((value << 1) ^ (value >> 31)) as u32) as nat == zz(value as int),
{
    let z = ((value << 1) ^ (value >> 31)) as u32;
    assert(value >= 0 ==> z == (value as u32) * 2) by (bit_vector)
        requires z == ((value << 1) ^ (value >> 31)) as u32;
    assert(value < 0 ==> z == ((-(value + 1)) as u32) * 2 + 1) by (bit_vector)
        requires z == ((value << 1) ^ (value >> 31)) as u32;
}

// ---- reference varint reader (lenient exactly as DESIGN 4.5: over-long forms accepted, on
// ---- a fifth byte the continuation bit and bits 4-6 are ignored).  `unleb_used` is the
// ---- number of bytes the reader moves over, also when the input ends early.
pub open spec fn cont(b: u8) -> bool {
    b & 0x80 != 0
}

pub open spec fn unleb_used(s: Seq<u8>) -> nat {
    if s.len() < 1 { 0 }
    else if !cont(s[0]) || s.len() < 2 { 1 }
    else if !cont(s[1]) || s.len() < 3 { 2 }
    else if !cont(s[2]) || s.len() < 4 { 3 }
    else if !cont(s[3]) || s.len() < 5 { 4 }
    else { 5 }
}

pub open spec fn unleb_complete(s: Seq<u8>) -> bool {
    let n = unleb_used(s);
    n >= 1 && (n == 5 || !cont(s[n - 1]))
}

pub open spec fn grp(s: Seq<u8>, j: int) -> u32 {
    (s[j] & 0x7F) as u32
}

pub open spec fn unleb_val(s: Seq<u8>) -> u32 {
    let n = unleb_used(s);
    if n <= 1 { grp(s, 0) }
    else if n == 2 { grp(s, 0) | (grp(s, 1) << 7) }
    else if n == 3 { grp(s, 0) | (grp(s, 1) << 7) | (grp(s, 2) << 14) }
    else if n == 4 { grp(s, 0) | (grp(s, 1) << 7) | (grp(s, 2) << 14) | (grp(s, 3) << 21) }
    else { grp(s, 0) | (grp(s, 1) << 7) | (grp(s, 2) << 14) | (grp(s, 3) << 21) | (grp(s, 4) << 28) }
}

pub open spec fn unleb_res(s: Seq<u8>) -> Result<u32> {
    if unleb_complete(s) { Ok(unleb_val(s)) } else { Err(Error::InputEndedUnexpectedly) }
}

pub open spec fn unvar_i32_res(s: Seq<u8>) -> Result<i32> {
    match unleb_res(s) {
        Ok(u) => Ok(unzz(u as nat) as i32),
        Err(e) => Err(e),
    }
}

pub proof fn lemma_unzigzag(r: u32)
    ensures
        (r & 1) <= 1,
        (((r >> 1) ^ ((-((r & 1) as i32)) as u32)) as i32) as int == unzz(r as nat),
{
    assert((r & 1) <= 1) by (bit_vector);
    let x = (((r >> 1) ^ ((-((r & 1) as i32)) as u32)) as i32);
    assert(r % 2 == 0 ==> x == (r / 2) as i32) by (bit_vector)
        requires x == (((r >> 1) ^ ((-((r & 1) as i32)) as u32)) as i32);
    assert(r % 2 == 1 ==> x == -(((r / 2) as i32)) - 1) by (bit_vector)
        requires x == (((r >> 1) ^ ((-((r & 1) as i32)) as u32)) as i32);
    assert(r / 2 <= 0x7FFF_FFFF);
}
