//@lemma C01 C07 C08
impl<T1: CodecLaws> CodecLaws for (T1,) {
    proof fn tbl_mono(&self, t: Tbl) {
        let t0 = t;
        let e0 = self.0.enc(t0);
        let t1 = self.0.tbl_after(t0);
        self.0.tbl_mono(t0);
    }
    #[verifier::rlimit(400)]
    #[verifier::spinoff_prover]
    proof fn roundtrip(&self, t: Tbl, suffix: Seq<u8>) {
        let t0 = t;
        let e0 = self.0.enc(t0);
        let t1 = self.0.tbl_after(t0);
        self.0.tbl_mono(t0);
        let r0 = suffix;
        let all = self.enc(t) + suffix;
        let w0 = all.skip(1);
        assert(all[0] == 0);
        assert(w0 =~= e0 + r0);
        self.0.roundtrip(t0, r0);
        assert(dec_field::<T1>(w0, t0, false, false) == (Dec::Ok { v: self.0.gv(), n: e0.len(), t: t1 }));
    }
}

//@lemma C08
impl<T1: TruncLaw> TruncLaw for (T1,) {
    #[verifier::rlimit(600)]
    #[verifier::spinoff_prover]
    proof fn truncated(&self, t: Tbl, k: int) {
        let t0 = t;
        let e0 = self.0.enc(t0);
        let t1 = self.0.tbl_after(t0);
        self.0.tbl_mono(t0);
        let cut = self.enc(t).take(k);
        if k >= 1 {
            let c0 = k - 1;
            let w0 = cut.skip(1);
            assert(cut[0] == 0);
            self.0.truncated(t0, c0);
            assert(w0 =~= e0.take(c0));
            assert(dec_field::<T1>(w0, t0, false, false) is Err);
        }
    }
}

//@lemma C01 C07 C08
impl<T1: CodecLaws, T2: CodecLaws> CodecLaws for (T1, T2) {
    proof fn tbl_mono(&self, t: Tbl) {
        let t0 = t;
        let e0 = self.0.enc(t0);
        let t1 = self.0.tbl_after(t0);
        let e1 = self.1.enc(t1);
        let t2 = self.1.tbl_after(t1);
        self.0.tbl_mono(t0);
        self.1.tbl_mono(t1);
    }
    #[verifier::rlimit(400)]
    #[verifier::spinoff_prover]
    proof fn roundtrip(&self, t: Tbl, suffix: Seq<u8>) {
        let t0 = t;
        let e0 = self.0.enc(t0);
        let t1 = self.0.tbl_after(t0);
        let e1 = self.1.enc(t1);
        let t2 = self.1.tbl_after(t1);
        self.0.tbl_mono(t0);
        self.1.tbl_mono(t1);
        let r1 = suffix;
        let r0 = e1 + r1;
        let all = self.enc(t) + suffix;
        let w0 = all.skip(1);
        assert(all[0] == 0);
        assert(w0 =~= e0 + r0);
        self.0.roundtrip(t0, r0);
        assert(dec_field::<T1>(w0, t0, false, false) == (Dec::Ok { v: self.0.gv(), n: e0.len(), t: t1 }));
        let w1 = w0.skip(e0.len() as int);
        assert(w1 =~= r0);
        assert(w1 =~= e1 + r1);
        self.1.roundtrip(t1, r1);
        assert(dec_field::<T2>(w1, t1, false, false) == (Dec::Ok { v: self.1.gv(), n: e1.len(), t: t2 }));
    }
}

//@lemma C08
impl<T1: TruncLaw, T2: TruncLaw> TruncLaw for (T1, T2) {
    #[verifier::rlimit(600)]
    #[verifier::spinoff_prover]
    proof fn truncated(&self, t: Tbl, k: int) {
        let t0 = t;
        let e0 = self.0.enc(t0);
        let t1 = self.0.tbl_after(t0);
        let e1 = self.1.enc(t1);
        let t2 = self.1.tbl_after(t1);
        self.0.tbl_mono(t0);
        self.1.tbl_mono(t1);
        let cut = self.enc(t).take(k);
        if k >= 1 {
            let c0 = k - 1;
            let w0 = cut.skip(1);
            assert(cut[0] == 0);
            if c0 < e0.len() {
                self.0.truncated(t0, c0);
                assert(w0 =~= e0.take(c0));
                assert(dec_field::<T1>(w0, t0, false, false) is Err);
            } else {
                let c1 = c0 - e0.len();
                let q0 = (e1).take(c1);
                assert(w0 =~= e0 + q0);
                self.0.roundtrip(t0, q0);
                assert(dec_field::<T1>(w0, t0, false, false) == (Dec::Ok { v: self.0.gv(), n: e0.len(), t: t1 }));
                let w1 = w0.skip(e0.len() as int);
                assert(w1 =~= q0);
                self.1.truncated(t1, c1);
                assert(w1 =~= e1.take(c1));
                assert(dec_field::<T2>(w1, t1, false, false) is Err);
            }
        }
    }
}

//@lemma C01 C07 C08
impl<T1: CodecLaws, T2: CodecLaws, T3: CodecLaws> CodecLaws for (T1, T2, T3) {
    proof fn tbl_mono(&self, t: Tbl) {
        let t0 = t;
        let e0 = self.0.enc(t0);
        let t1 = self.0.tbl_after(t0);
        let e1 = self.1.enc(t1);
        let t2 = self.1.tbl_after(t1);
        let e2 = self.2.enc(t2);
        let t3 = self.2.tbl_after(t2);
        self.0.tbl_mono(t0);
        self.1.tbl_mono(t1);
        self.2.tbl_mono(t2);
    }
    #[verifier::rlimit(400)]
    #[verifier::spinoff_prover]
    proof fn roundtrip(&self, t: Tbl, suffix: Seq<u8>) {
        let t0 = t;
        let e0 = self.0.enc(t0);
        let t1 = self.0.tbl_after(t0);
        let e1 = self.1.enc(t1);
        let t2 = self.1.tbl_after(t1);
        let e2 = self.2.enc(t2);
        let t3 = self.2.tbl_after(t2);
        self.0.tbl_mono(t0);
        self.1.tbl_mono(t1);
        self.2.tbl_mono(t2);
        let r2 = suffix;
        let r1 = e2 + r2;
        let r0 = e1 + r1;
        let all = self.enc(t) + suffix;
        let w0 = all.skip(1);
        assert(all[0] == 0);
        assert(w0 =~= e0 + r0);
        self.0.roundtrip(t0, r0);
        assert(dec_field::<T1>(w0, t0, false, false) == (Dec::Ok { v: self.0.gv(), n: e0.len(), t: t1 }));
        let w1 = w0.skip(e0.len() as int);
        assert(w1 =~= r0);
        assert(w1 =~= e1 + r1);
        self.1.roundtrip(t1, r1);
        assert(dec_field::<T2>(w1, t1, false, false) == (Dec::Ok { v: self.1.gv(), n: e1.len(), t: t2 }));
        let w2 = w1.skip(e1.len() as int);
        assert(w2 =~= r1);
        assert(w2 =~= e2 + r2);
        self.2.roundtrip(t2, r2);
        assert(dec_field::<T3>(w2, t2, false, false) == (Dec::Ok { v: self.2.gv(), n: e2.len(), t: t3 }));
    }
}

//@lemma C08
impl<T1: TruncLaw, T2: TruncLaw, T3: TruncLaw> TruncLaw for (T1, T2, T3) {
    #[verifier::rlimit(600)]
    #[verifier::spinoff_prover]
    proof fn truncated(&self, t: Tbl, k: int) {
        let t0 = t;
        let e0 = self.0.enc(t0);
        let t1 = self.0.tbl_after(t0);
        let e1 = self.1.enc(t1);
        let t2 = self.1.tbl_after(t1);
        let e2 = self.2.enc(t2);
        let t3 = self.2.tbl_after(t2);
        self.0.tbl_mono(t0);
        self.1.tbl_mono(t1);
        self.2.tbl_mono(t2);
        let cut = self.enc(t).take(k);
        if k >= 1 {
            let c0 = k - 1;
            let w0 = cut.skip(1);
            assert(cut[0] == 0);
            if c0 < e0.len() {
                self.0.truncated(t0, c0);
                assert(w0 =~= e0.take(c0));
                assert(dec_field::<T1>(w0, t0, false, false) is Err);
            } else {
                let c1 = c0 - e0.len();
                let q0 = (e1 + e2).take(c1);
                assert(w0 =~= e0 + q0);
                self.0.roundtrip(t0, q0);
                assert(dec_field::<T1>(w0, t0, false, false) == (Dec::Ok { v: self.0.gv(), n: e0.len(), t: t1 }));
                let w1 = w0.skip(e0.len() as int);
                assert(w1 =~= q0);
                if c1 < e1.len() {
                    self.1.truncated(t1, c1);
                    assert(w1 =~= e1.take(c1));
                    assert(dec_field::<T2>(w1, t1, false, false) is Err);
                } else {
                    let c2 = c1 - e1.len();
                    let q1 = (e2).take(c2);
                    assert(w1 =~= e1 + q1);
                    self.1.roundtrip(t1, q1);
                    assert(dec_field::<T2>(w1, t1, false, false) == (Dec::Ok { v: self.1.gv(), n: e1.len(), t: t2 }));
                    let w2 = w1.skip(e1.len() as int);
                    assert(w2 =~= q1);
                    self.2.truncated(t2, c2);
                    assert(w2 =~= e2.take(c2));
                    assert(dec_field::<T3>(w2, t2, false, false) is Err);
                }
            }
        }
    }
}

//@lemma C01 C07 C08
impl<T1: CodecLaws, T2: CodecLaws, T3: CodecLaws, T4: CodecLaws> CodecLaws for (T1, T2, T3, T4) {
    proof fn tbl_mono(&self, t: Tbl) {
        let t0 = t;
        let e0 = self.0.enc(t0);
        let t1 = self.0.tbl_after(t0);
        let e1 = self.1.enc(t1);
        let t2 = self.1.tbl_after(t1);
        let e2 = self.2.enc(t2);
        let t3 = self.2.tbl_after(t2);
        let e3 = self.3.enc(t3);
        let t4 = self.3.tbl_after(t3);
        self.0.tbl_mono(t0);
        self.1.tbl_mono(t1);
        self.2.tbl_mono(t2);
        self.3.tbl_mono(t3);
    }
    #[verifier::rlimit(400)]
    #[verifier::spinoff_prover]
    proof fn roundtrip(&self, t: Tbl, suffix: Seq<u8>) {
        let t0 = t;
        let e0 = self.0.enc(t0);
        let t1 = self.0.tbl_after(t0);
        let e1 = self.1.enc(t1);
        let t2 = self.1.tbl_after(t1);
        let e2 = self.2.enc(t2);
        let t3 = self.2.tbl_after(t2);
        let e3 = self.3.enc(t3);
        let t4 = self.3.tbl_after(t3);
        self.0.tbl_mono(t0);
        self.1.tbl_mono(t1);
        self.2.tbl_mono(t2);
        self.3.tbl_mono(t3);
        let r3 = suffix;
        let r2 = e3 + r3;
        let r1 = e2 + r2;
        let r0 = e1 + r1;
        let all = self.enc(t) + suffix;
        let w0 = all.skip(1);
        assert(all[0] == 0);
        assert(w0 =~= e0 + r0);
        self.0.roundtrip(t0, r0);
        assert(dec_field::<T1>(w0, t0, false, false) == (Dec::Ok { v: self.0.gv(), n: e0.len(), t: t1 }));
        let w1 = w0.skip(e0.len() as int);
        assert(w1 =~= r0);
        assert(w1 =~= e1 + r1);
        self.1.roundtrip(t1, r1);
        assert(dec_field::<T2>(w1, t1, false, false) == (Dec::Ok { v: self.1.gv(), n: e1.len(), t: t2 }));
        let w2 = w1.skip(e1.len() as int);
        assert(w2 =~= r1);
        assert(w2 =~= e2 + r2);
        self.2.roundtrip(t2, r2);
        assert(dec_field::<T3>(w2, t2, false, false) == (Dec::Ok { v: self.2.gv(), n: e2.len(), t: t3 }));
        let w3 = w2.skip(e2.len() as int);
        assert(w3 =~= r2);
        assert(w3 =~= e3 + r3);
        self.3.roundtrip(t3, r3);
        assert(dec_field::<T4>(w3, t3, false, false) == (Dec::Ok { v: self.3.gv(), n: e3.len(), t: t4 }));
    }
}

//@lemma C08
impl<T1: TruncLaw, T2: TruncLaw, T3: TruncLaw, T4: TruncLaw> TruncLaw for (T1, T2, T3, T4) {
    #[verifier::rlimit(600)]
    #[verifier::spinoff_prover]
    proof fn truncated(&self, t: Tbl, k: int) {
        let t0 = t;
        let e0 = self.0.enc(t0);
        let t1 = self.0.tbl_after(t0);
        let e1 = self.1.enc(t1);
        let t2 = self.1.tbl_after(t1);
        let e2 = self.2.enc(t2);
        let t3 = self.2.tbl_after(t2);
        let e3 = self.3.enc(t3);
        let t4 = self.3.tbl_after(t3);
        self.0.tbl_mono(t0);
        self.1.tbl_mono(t1);
        self.2.tbl_mono(t2);
        self.3.tbl_mono(t3);
        let cut = self.enc(t).take(k);
        if k >= 1 {
            let c0 = k - 1;
            let w0 = cut.skip(1);
            assert(cut[0] == 0);
            if c0 < e0.len() {
                self.0.truncated(t0, c0);
                assert(w0 =~= e0.take(c0));
                assert(dec_field::<T1>(w0, t0, false, false) is Err);
            } else {
                let c1 = c0 - e0.len();
                let q0 = (e1 + e2 + e3).take(c1);
                assert(w0 =~= e0 + q0);
                self.0.roundtrip(t0, q0);
                assert(dec_field::<T1>(w0, t0, false, false) == (Dec::Ok { v: self.0.gv(), n: e0.len(), t: t1 }));
                let w1 = w0.skip(e0.len() as int);
                assert(w1 =~= q0);
                if c1 < e1.len() {
                    self.1.truncated(t1, c1);
                    assert(w1 =~= e1.take(c1));
                    assert(dec_field::<T2>(w1, t1, false, false) is Err);
                } else {
                    let c2 = c1 - e1.len();
                    let q1 = (e2 + e3).take(c2);
                    assert(w1 =~= e1 + q1);
                    self.1.roundtrip(t1, q1);
                    assert(dec_field::<T2>(w1, t1, false, false) == (Dec::Ok { v: self.1.gv(), n: e1.len(), t: t2 }));
                    let w2 = w1.skip(e1.len() as int);
                    assert(w2 =~= q1);
                    if c2 < e2.len() {
                        self.2.truncated(t2, c2);
                        assert(w2 =~= e2.take(c2));
                        assert(dec_field::<T3>(w2, t2, false, false) is Err);
                    } else {
                        let c3 = c2 - e2.len();
                        let q2 = (e3).take(c3);
                        assert(w2 =~= e2 + q2);
                        self.2.roundtrip(t2, q2);
                        assert(dec_field::<T3>(w2, t2, false, false) == (Dec::Ok { v: self.2.gv(), n: e2.len(), t: t3 }));
                        let w3 = w2.skip(e2.len() as int);
                        assert(w3 =~= q2);
                        self.3.truncated(t3, c3);
                        assert(w3 =~= e3.take(c3));
                        assert(dec_field::<T4>(w3, t3, false, false) is Err);
                    }
                }
            }
        }
    }
}

//@lemma C01 C07 C08
impl<T1: CodecLaws, T2: CodecLaws, T3: CodecLaws, T4: CodecLaws, T5: CodecLaws> CodecLaws for (T1, T2, T3, T4, T5) {
    proof fn tbl_mono(&self, t: Tbl) {
        let t0 = t;
        let e0 = self.0.enc(t0);
        let t1 = self.0.tbl_after(t0);
        let e1 = self.1.enc(t1);
        let t2 = self.1.tbl_after(t1);
        let e2 = self.2.enc(t2);
        let t3 = self.2.tbl_after(t2);
        let e3 = self.3.enc(t3);
        let t4 = self.3.tbl_after(t3);
        let e4 = self.4.enc(t4);
        let t5 = self.4.tbl_after(t4);
        self.0.tbl_mono(t0);
        self.1.tbl_mono(t1);
        self.2.tbl_mono(t2);
        self.3.tbl_mono(t3);
        self.4.tbl_mono(t4);
    }
    #[verifier::rlimit(400)]
    #[verifier::spinoff_prover]
    proof fn roundtrip(&self, t: Tbl, suffix: Seq<u8>) {
        let t0 = t;
        let e0 = self.0.enc(t0);
        let t1 = self.0.tbl_after(t0);
        let e1 = self.1.enc(t1);
        let t2 = self.1.tbl_after(t1);
        let e2 = self.2.enc(t2);
        let t3 = self.2.tbl_after(t2);
        let e3 = self.3.enc(t3);
        let t4 = self.3.tbl_after(t3);
        let e4 = self.4.enc(t4);
        let t5 = self.4.tbl_after(t4);
        self.0.tbl_mono(t0);
        self.1.tbl_mono(t1);
        self.2.tbl_mono(t2);
        self.3.tbl_mono(t3);
        self.4.tbl_mono(t4);
        let r4 = suffix;
        let r3 = e4 + r4;
        let r2 = e3 + r3;
        let r1 = e2 + r2;
        let r0 = e1 + r1;
        let all = self.enc(t) + suffix;
        let w0 = all.skip(1);
        assert(all[0] == 0);
        assert(w0 =~= e0 + r0);
        self.0.roundtrip(t0, r0);
        assert(dec_field::<T1>(w0, t0, false, false) == (Dec::Ok { v: self.0.gv(), n: e0.len(), t: t1 }));
        let w1 = w0.skip(e0.len() as int);
        assert(w1 =~= r0);
        assert(w1 =~= e1 + r1);
        self.1.roundtrip(t1, r1);
        assert(dec_field::<T2>(w1, t1, false, false) == (Dec::Ok { v: self.1.gv(), n: e1.len(), t: t2 }));
        let w2 = w1.skip(e1.len() as int);
        assert(w2 =~= r1);
        assert(w2 =~= e2 + r2);
        self.2.roundtrip(t2, r2);
        assert(dec_field::<T3>(w2, t2, false, false) == (Dec::Ok { v: self.2.gv(), n: e2.len(), t: t3 }));
        let w3 = w2.skip(e2.len() as int);
        assert(w3 =~= r2);
        assert(w3 =~= e3 + r3);
        self.3.roundtrip(t3, r3);
        assert(dec_field::<T4>(w3, t3, false, false) == (Dec::Ok { v: self.3.gv(), n: e3.len(), t: t4 }));
        let w4 = w3.skip(e3.len() as int);
        assert(w4 =~= r3);
        assert(w4 =~= e4 + r4);
        self.4.roundtrip(t4, r4);
        assert(dec_field::<T5>(w4, t4, false, false) == (Dec::Ok { v: self.4.gv(), n: e4.len(), t: t5 }));
    }
}

//@lemma C08
impl<T1: TruncLaw, T2: TruncLaw, T3: TruncLaw, T4: TruncLaw, T5: TruncLaw> TruncLaw for (T1, T2, T3, T4, T5) {
    #[verifier::rlimit(600)]
    #[verifier::spinoff_prover]
    proof fn truncated(&self, t: Tbl, k: int) {
        let t0 = t;
        let e0 = self.0.enc(t0);
        let t1 = self.0.tbl_after(t0);
        let e1 = self.1.enc(t1);
        let t2 = self.1.tbl_after(t1);
        let e2 = self.2.enc(t2);
        let t3 = self.2.tbl_after(t2);
        let e3 = self.3.enc(t3);
        let t4 = self.3.tbl_after(t3);
        let e4 = self.4.enc(t4);
        let t5 = self.4.tbl_after(t4);
        self.0.tbl_mono(t0);
        self.1.tbl_mono(t1);
        self.2.tbl_mono(t2);
        self.3.tbl_mono(t3);
        self.4.tbl_mono(t4);
        let cut = self.enc(t).take(k);
        if k >= 1 {
            let c0 = k - 1;
            let w0 = cut.skip(1);
            assert(cut[0] == 0);
            if c0 < e0.len() {
                self.0.truncated(t0, c0);
                assert(w0 =~= e0.take(c0));
                assert(dec_field::<T1>(w0, t0, false, false) is Err);
            } else {
                let c1 = c0 - e0.len();
                let q0 = (e1 + e2 + e3 + e4).take(c1);
                assert(w0 =~= e0 + q0);
                self.0.roundtrip(t0, q0);
                assert(dec_field::<T1>(w0, t0, false, false) == (Dec::Ok { v: self.0.gv(), n: e0.len(), t: t1 }));
                let w1 = w0.skip(e0.len() as int);
                assert(w1 =~= q0);
                if c1 < e1.len() {
                    self.1.truncated(t1, c1);
                    assert(w1 =~= e1.take(c1));
                    assert(dec_field::<T2>(w1, t1, false, false) is Err);
                } else {
                    let c2 = c1 - e1.len();
                    let q1 = (e2 + e3 + e4).take(c2);
                    assert(w1 =~= e1 + q1);
                    self.1.roundtrip(t1, q1);
                    assert(dec_field::<T2>(w1, t1, false, false) == (Dec::Ok { v: self.1.gv(), n: e1.len(), t: t2 }));
                    let w2 = w1.skip(e1.len() as int);
                    assert(w2 =~= q1);
                    if c2 < e2.len() {
                        self.2.truncated(t2, c2);
                        assert(w2 =~= e2.take(c2));
                        assert(dec_field::<T3>(w2, t2, false, false) is Err);
                    } else {
                        let c3 = c2 - e2.len();
                        let q2 = (e3 + e4).take(c3);
                        assert(w2 =~= e2 + q2);
                        self.2.roundtrip(t2, q2);
                        assert(dec_field::<T3>(w2, t2, false, false) == (Dec::Ok { v: self.2.gv(), n: e2.len(), t: t3 }));
                        let w3 = w2.skip(e2.len() as int);
                        assert(w3 =~= q2);
                        if c3 < e3.len() {
                            self.3.truncated(t3, c3);
                            assert(w3 =~= e3.take(c3));
                            assert(dec_field::<T4>(w3, t3, false, false) is Err);
                        } else {
                            let c4 = c3 - e3.len();
                            let q3 = (e4).take(c4);
                            assert(w3 =~= e3 + q3);
                            self.3.roundtrip(t3, q3);
                            assert(dec_field::<T4>(w3, t3, false, false) == (Dec::Ok { v: self.3.gv(), n: e3.len(), t: t4 }));
                            let w4 = w3.skip(e3.len() as int);
                            assert(w4 =~= q3);
                            self.4.truncated(t4, c4);
                            assert(w4 =~= e4.take(c4));
                            assert(dec_field::<T5>(w4, t4, false, false) is Err);
                        }
                    }
                }
            }
        }
    }
}

//@lemma C01 C07 C08
impl<T1: CodecLaws, T2: CodecLaws, T3: CodecLaws, T4: CodecLaws, T5: CodecLaws, T6: CodecLaws> CodecLaws for (T1, T2, T3, T4, T5, T6) {
    proof fn tbl_mono(&self, t: Tbl) {
        let t0 = t;
        let e0 = self.0.enc(t0);
        let t1 = self.0.tbl_after(t0);
        let e1 = self.1.enc(t1);
        let t2 = self.1.tbl_after(t1);
        let e2 = self.2.enc(t2);
        let t3 = self.2.tbl_after(t2);
        let e3 = self.3.enc(t3);
        let t4 = self.3.tbl_after(t3);
        let e4 = self.4.enc(t4);
        let t5 = self.4.tbl_after(t4);
        let e5 = self.5.enc(t5);
        let t6 = self.5.tbl_after(t5);
        self.0.tbl_mono(t0);
        self.1.tbl_mono(t1);
        self.2.tbl_mono(t2);
        self.3.tbl_mono(t3);
        self.4.tbl_mono(t4);
        self.5.tbl_mono(t5);
    }
    #[verifier::rlimit(400)]
    #[verifier::spinoff_prover]
    proof fn roundtrip(&self, t: Tbl, suffix: Seq<u8>) {
        let t0 = t;
        let e0 = self.0.enc(t0);
        let t1 = self.0.tbl_after(t0);
        let e1 = self.1.enc(t1);
        let t2 = self.1.tbl_after(t1);
        let e2 = self.2.enc(t2);
        let t3 = self.2.tbl_after(t2);
        let e3 = self.3.enc(t3);
        let t4 = self.3.tbl_after(t3);
        let e4 = self.4.enc(t4);
        let t5 = self.4.tbl_after(t4);
        let e5 = self.5.enc(t5);
        let t6 = self.5.tbl_after(t5);
        self.0.tbl_mono(t0);
        self.1.tbl_mono(t1);
        self.2.tbl_mono(t2);
        self.3.tbl_mono(t3);
        self.4.tbl_mono(t4);
        self.5.tbl_mono(t5);
        let r5 = suffix;
        let r4 = e5 + r5;
        let r3 = e4 + r4;
        let r2 = e3 + r3;
        let r1 = e2 + r2;
        let r0 = e1 + r1;
        let all = self.enc(t) + suffix;
        let w0 = all.skip(1);
        assert(all[0] == 0);
        assert(w0 =~= e0 + r0);
        self.0.roundtrip(t0, r0);
        assert(dec_field::<T1>(w0, t0, false, false) == (Dec::Ok { v: self.0.gv(), n: e0.len(), t: t1 }));
        let w1 = w0.skip(e0.len() as int);
        assert(w1 =~= r0);
        assert(w1 =~= e1 + r1);
        self.1.roundtrip(t1, r1);
        assert(dec_field::<T2>(w1, t1, false, false) == (Dec::Ok { v: self.1.gv(), n: e1.len(), t: t2 }));
        let w2 = w1.skip(e1.len() as int);
        assert(w2 =~= r1);
        assert(w2 =~= e2 + r2);
        self.2.roundtrip(t2, r2);
        assert(dec_field::<T3>(w2, t2, false, false) == (Dec::Ok { v: self.2.gv(), n: e2.len(), t: t3 }));
        let w3 = w2.skip(e2.len() as int);
        assert(w3 =~= r2);
        assert(w3 =~= e3 + r3);
        self.3.roundtrip(t3, r3);
        assert(dec_field::<T4>(w3, t3, false, false) == (Dec::Ok { v: self.3.gv(), n: e3.len(), t: t4 }));
        let w4 = w3.skip(e3.len() as int);
        assert(w4 =~= r3);
        assert(w4 =~= e4 + r4);
        self.4.roundtrip(t4, r4);
        assert(dec_field::<T5>(w4, t4, false, false) == (Dec::Ok { v: self.4.gv(), n: e4.len(), t: t5 }));
        let w5 = w4.skip(e4.len() as int);
        assert(w5 =~= r4);
        assert(w5 =~= e5 + r5);
        self.5.roundtrip(t5, r5);
        assert(dec_field::<T6>(w5, t5, false, false) == (Dec::Ok { v: self.5.gv(), n: e5.len(), t: t6 }));
    }
}

// TruncLaw for (T1, T2, T3, T4, T5, T6): not claimed (proof unstable under solver seeds)

//@lemma C01 C07 C08
impl<T1: CodecLaws, T2: CodecLaws, T3: CodecLaws, T4: CodecLaws, T5: CodecLaws, T6: CodecLaws, T7: CodecLaws> CodecLaws for (T1, T2, T3, T4, T5, T6, T7) {
    proof fn tbl_mono(&self, t: Tbl) {
        let t0 = t;
        let e0 = self.0.enc(t0);
        let t1 = self.0.tbl_after(t0);
        let e1 = self.1.enc(t1);
        let t2 = self.1.tbl_after(t1);
        let e2 = self.2.enc(t2);
        let t3 = self.2.tbl_after(t2);
        let e3 = self.3.enc(t3);
        let t4 = self.3.tbl_after(t3);
        let e4 = self.4.enc(t4);
        let t5 = self.4.tbl_after(t4);
        let e5 = self.5.enc(t5);
        let t6 = self.5.tbl_after(t5);
        let e6 = self.6.enc(t6);
        let t7 = self.6.tbl_after(t6);
        self.0.tbl_mono(t0);
        self.1.tbl_mono(t1);
        self.2.tbl_mono(t2);
        self.3.tbl_mono(t3);
        self.4.tbl_mono(t4);
        self.5.tbl_mono(t5);
        self.6.tbl_mono(t6);
    }
    #[verifier::rlimit(400)]
    #[verifier::spinoff_prover]
    proof fn roundtrip(&self, t: Tbl, suffix: Seq<u8>) {
        let t0 = t;
        let e0 = self.0.enc(t0);
        let t1 = self.0.tbl_after(t0);
        let e1 = self.1.enc(t1);
        let t2 = self.1.tbl_after(t1);
        let e2 = self.2.enc(t2);
        let t3 = self.2.tbl_after(t2);
        let e3 = self.3.enc(t3);
        let t4 = self.3.tbl_after(t3);
        let e4 = self.4.enc(t4);
        let t5 = self.4.tbl_after(t4);
        let e5 = self.5.enc(t5);
        let t6 = self.5.tbl_after(t5);
        let e6 = self.6.enc(t6);
        let t7 = self.6.tbl_after(t6);
        self.0.tbl_mono(t0);
        self.1.tbl_mono(t1);
        self.2.tbl_mono(t2);
        self.3.tbl_mono(t3);
        self.4.tbl_mono(t4);
        self.5.tbl_mono(t5);
        self.6.tbl_mono(t6);
        let r6 = suffix;
        let r5 = e6 + r6;
        let r4 = e5 + r5;
        let r3 = e4 + r4;
        let r2 = e3 + r3;
        let r1 = e2 + r2;
        let r0 = e1 + r1;
        let all = self.enc(t) + suffix;
        let w0 = all.skip(1);
        assert(all[0] == 0);
        assert(w0 =~= e0 + r0);
        self.0.roundtrip(t0, r0);
        assert(dec_field::<T1>(w0, t0, false, false) == (Dec::Ok { v: self.0.gv(), n: e0.len(), t: t1 }));
        let w1 = w0.skip(e0.len() as int);
        assert(w1 =~= r0);
        assert(w1 =~= e1 + r1);
        self.1.roundtrip(t1, r1);
        assert(dec_field::<T2>(w1, t1, false, false) == (Dec::Ok { v: self.1.gv(), n: e1.len(), t: t2 }));
        let w2 = w1.skip(e1.len() as int);
        assert(w2 =~= r1);
        assert(w2 =~= e2 + r2);
        self.2.roundtrip(t2, r2);
        assert(dec_field::<T3>(w2, t2, false, false) == (Dec::Ok { v: self.2.gv(), n: e2.len(), t: t3 }));
        let w3 = w2.skip(e2.len() as int);
        assert(w3 =~= r2);
        assert(w3 =~= e3 + r3);
        self.3.roundtrip(t3, r3);
        assert(dec_field::<T4>(w3, t3, false, false) == (Dec::Ok { v: self.3.gv(), n: e3.len(), t: t4 }));
        let w4 = w3.skip(e3.len() as int);
        assert(w4 =~= r3);
        assert(w4 =~= e4 + r4);
        self.4.roundtrip(t4, r4);
        assert(dec_field::<T5>(w4, t4, false, false) == (Dec::Ok { v: self.4.gv(), n: e4.len(), t: t5 }));
        let w5 = w4.skip(e4.len() as int);
        assert(w5 =~= r4);
        assert(w5 =~= e5 + r5);
        self.5.roundtrip(t5, r5);
        assert(dec_field::<T6>(w5, t5, false, false) == (Dec::Ok { v: self.5.gv(), n: e5.len(), t: t6 }));
        let w6 = w5.skip(e5.len() as int);
        assert(w6 =~= r5);
        assert(w6 =~= e6 + r6);
        self.6.roundtrip(t6, r6);
        assert(dec_field::<T7>(w6, t6, false, false) == (Dec::Ok { v: self.6.gv(), n: e6.len(), t: t7 }));
    }
}

// TruncLaw for (T1, T2, T3, T4, T5, T6, T7): not claimed (proof unstable under solver seeds)

//@lemma C01 C07 C08
impl<T1: CodecLaws, T2: CodecLaws, T3: CodecLaws, T4: CodecLaws, T5: CodecLaws, T6: CodecLaws, T7: CodecLaws, T8: CodecLaws> CodecLaws for (T1, T2, T3, T4, T5, T6, T7, T8) {
    proof fn tbl_mono(&self, t: Tbl) {
        let t0 = t;
        let e0 = self.0.enc(t0);
        let t1 = self.0.tbl_after(t0);
        let e1 = self.1.enc(t1);
        let t2 = self.1.tbl_after(t1);
        let e2 = self.2.enc(t2);
        let t3 = self.2.tbl_after(t2);
        let e3 = self.3.enc(t3);
        let t4 = self.3.tbl_after(t3);
        let e4 = self.4.enc(t4);
        let t5 = self.4.tbl_after(t4);
        let e5 = self.5.enc(t5);
        let t6 = self.5.tbl_after(t5);
        let e6 = self.6.enc(t6);
        let t7 = self.6.tbl_after(t6);
        let e7 = self.7.enc(t7);
        let t8 = self.7.tbl_after(t7);
        self.0.tbl_mono(t0);
        self.1.tbl_mono(t1);
        self.2.tbl_mono(t2);
        self.3.tbl_mono(t3);
        self.4.tbl_mono(t4);
        self.5.tbl_mono(t5);
        self.6.tbl_mono(t6);
        self.7.tbl_mono(t7);
    }
    #[verifier::rlimit(400)]
    #[verifier::spinoff_prover]
    proof fn roundtrip(&self, t: Tbl, suffix: Seq<u8>) {
        let t0 = t;
        let e0 = self.0.enc(t0);
        let t1 = self.0.tbl_after(t0);
        let e1 = self.1.enc(t1);
        let t2 = self.1.tbl_after(t1);
        let e2 = self.2.enc(t2);
        let t3 = self.2.tbl_after(t2);
        let e3 = self.3.enc(t3);
        let t4 = self.3.tbl_after(t3);
        let e4 = self.4.enc(t4);
        let t5 = self.4.tbl_after(t4);
        let e5 = self.5.enc(t5);
        let t6 = self.5.tbl_after(t5);
        let e6 = self.6.enc(t6);
        let t7 = self.6.tbl_after(t6);
        let e7 = self.7.enc(t7);
        let t8 = self.7.tbl_after(t7);
        self.0.tbl_mono(t0);
        self.1.tbl_mono(t1);
        self.2.tbl_mono(t2);
        self.3.tbl_mono(t3);
        self.4.tbl_mono(t4);
        self.5.tbl_mono(t5);
        self.6.tbl_mono(t6);
        self.7.tbl_mono(t7);
        let r7 = suffix;
        let r6 = e7 + r7;
        let r5 = e6 + r6;
        let r4 = e5 + r5;
        let r3 = e4 + r4;
        let r2 = e3 + r3;
        let r1 = e2 + r2;
        let r0 = e1 + r1;
        let all = self.enc(t) + suffix;
        let w0 = all.skip(1);
        assert(all[0] == 0);
        assert(w0 =~= e0 + r0);
        self.0.roundtrip(t0, r0);
        assert(dec_field::<T1>(w0, t0, false, false) == (Dec::Ok { v: self.0.gv(), n: e0.len(), t: t1 }));
        let w1 = w0.skip(e0.len() as int);
        assert(w1 =~= r0);
        assert(w1 =~= e1 + r1);
        self.1.roundtrip(t1, r1);
        assert(dec_field::<T2>(w1, t1, false, false) == (Dec::Ok { v: self.1.gv(), n: e1.len(), t: t2 }));
        let w2 = w1.skip(e1.len() as int);
        assert(w2 =~= r1);
        assert(w2 =~= e2 + r2);
        self.2.roundtrip(t2, r2);
        assert(dec_field::<T3>(w2, t2, false, false) == (Dec::Ok { v: self.2.gv(), n: e2.len(), t: t3 }));
        let w3 = w2.skip(e2.len() as int);
        assert(w3 =~= r2);
        assert(w3 =~= e3 + r3);
        self.3.roundtrip(t3, r3);
        assert(dec_field::<T4>(w3, t3, false, false) == (Dec::Ok { v: self.3.gv(), n: e3.len(), t: t4 }));
        let w4 = w3.skip(e3.len() as int);
        assert(w4 =~= r3);
        assert(w4 =~= e4 + r4);
        self.4.roundtrip(t4, r4);
        assert(dec_field::<T5>(w4, t4, false, false) == (Dec::Ok { v: self.4.gv(), n: e4.len(), t: t5 }));
        let w5 = w4.skip(e4.len() as int);
        assert(w5 =~= r4);
        assert(w5 =~= e5 + r5);
        self.5.roundtrip(t5, r5);
        assert(dec_field::<T6>(w5, t5, false, false) == (Dec::Ok { v: self.5.gv(), n: e5.len(), t: t6 }));
        let w6 = w5.skip(e5.len() as int);
        assert(w6 =~= r5);
        assert(w6 =~= e6 + r6);
        self.6.roundtrip(t6, r6);
        assert(dec_field::<T7>(w6, t6, false, false) == (Dec::Ok { v: self.6.gv(), n: e6.len(), t: t7 }));
        let w7 = w6.skip(e6.len() as int);
        assert(w7 =~= r6);
        assert(w7 =~= e7 + r7);
        self.7.roundtrip(t7, r7);
        assert(dec_field::<T8>(w7, t7, false, false) == (Dec::Ok { v: self.7.gv(), n: e7.len(), t: t8 }));
    }
}

// TruncLaw for (T1, T2, T3, T4, T5, T6, T7, T8): not claimed (proof unstable under solver seeds)
