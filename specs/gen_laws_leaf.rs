//@lemma C01 C07 C08 C04
impl CodecLaws for u8 {
    proof fn tbl_mono(&self, t: Tbl) { }
    proof fn roundtrip(&self, t: Tbl, suffix: Seq<u8>) {
        let s = self.enc(t) + suffix;
        assert(s[0] == self.enc(t)[0]);
    }
}

//@lemma C08
impl TruncLaw for u8 {
    proof fn truncated(&self, t: Tbl, k: int) {
    }
}

//@lemma C01 C07 C08 C04
impl CodecLaws for i8 {
    proof fn tbl_mono(&self, t: Tbl) { }
    proof fn roundtrip(&self, t: Tbl, suffix: Seq<u8>) {
        let s = self.enc(t) + suffix;
        assert(s[0] == self.enc(t)[0]);
    }
}

//@lemma C08
impl TruncLaw for i8 {
    proof fn truncated(&self, t: Tbl, k: int) {
    }
}

//@lemma C01 C07 C08 C04
impl CodecLaws for u16 {
    proof fn tbl_mono(&self, t: Tbl) { }
    proof fn roundtrip(&self, t: Tbl, suffix: Seq<u8>) {
        let v = self.gv() as nat;
        lemma_pow256();
        lemma_be_len(2, v);
        lemma_be_roundtrip(2, v);
        assert((self.enc(t) + suffix).take(2) =~= be(2, v));
    }
}

//@lemma C08
impl TruncLaw for u16 {
    proof fn truncated(&self, t: Tbl, k: int) {
        lemma_be_len(2, self.gv() as nat);
    }
}

//@lemma C01 C07 C08 C04
impl CodecLaws for i16 {
    proof fn tbl_mono(&self, t: Tbl) { }
    proof fn roundtrip(&self, t: Tbl, suffix: Seq<u8>) {
        let v = self.gv() as nat;
        lemma_pow256();
        lemma_be_len(2, v);
        lemma_be_roundtrip(2, v);
        assert((self.enc(t) + suffix).take(2) =~= be(2, v));
    }
}

//@lemma C08
impl TruncLaw for i16 {
    proof fn truncated(&self, t: Tbl, k: int) {
        lemma_be_len(2, self.gv() as nat);
    }
}

//@lemma C01 C07 C08 C04
impl CodecLaws for u32 {
    proof fn tbl_mono(&self, t: Tbl) { }
    proof fn roundtrip(&self, t: Tbl, suffix: Seq<u8>) {
        let v = self.gv() as nat;
        lemma_pow256();
        lemma_be_len(4, v);
        lemma_be_roundtrip(4, v);
        assert((self.enc(t) + suffix).take(4) =~= be(4, v));
    }
}

//@lemma C08
impl TruncLaw for u32 {
    proof fn truncated(&self, t: Tbl, k: int) {
        lemma_be_len(4, self.gv() as nat);
    }
}

//@lemma C01 C07 C08 C04
impl CodecLaws for i32 {
    proof fn tbl_mono(&self, t: Tbl) { }
    proof fn roundtrip(&self, t: Tbl, suffix: Seq<u8>) {
        let v = self.gv() as nat;
        lemma_pow256();
        lemma_be_len(4, v);
        lemma_be_roundtrip(4, v);
        assert((self.enc(t) + suffix).take(4) =~= be(4, v));
    }
}

//@lemma C08
impl TruncLaw for i32 {
    proof fn truncated(&self, t: Tbl, k: int) {
        lemma_be_len(4, self.gv() as nat);
    }
}

//@lemma C01 C07 C08 C04
impl CodecLaws for u64 {
    proof fn tbl_mono(&self, t: Tbl) { }
    proof fn roundtrip(&self, t: Tbl, suffix: Seq<u8>) {
        let v = self.gv() as nat;
        lemma_pow256();
        lemma_be_len(8, v);
        lemma_be_roundtrip(8, v);
        assert((self.enc(t) + suffix).take(8) =~= be(8, v));
    }
}

//@lemma C08
impl TruncLaw for u64 {
    proof fn truncated(&self, t: Tbl, k: int) {
        lemma_be_len(8, self.gv() as nat);
    }
}

//@lemma C01 C07 C08 C04
impl CodecLaws for i64 {
    proof fn tbl_mono(&self, t: Tbl) { }
    proof fn roundtrip(&self, t: Tbl, suffix: Seq<u8>) {
        let v = self.gv() as nat;
        lemma_pow256();
        lemma_be_len(8, v);
        lemma_be_roundtrip(8, v);
        assert((self.enc(t) + suffix).take(8) =~= be(8, v));
    }
}

//@lemma C08
impl TruncLaw for i64 {
    proof fn truncated(&self, t: Tbl, k: int) {
        lemma_be_len(8, self.gv() as nat);
    }
}

//@lemma C01 C07 C08 C04
impl CodecLaws for u128 {
    proof fn tbl_mono(&self, t: Tbl) { }
    proof fn roundtrip(&self, t: Tbl, suffix: Seq<u8>) {
        let v = self.gv() as nat;
        lemma_pow256();
        lemma_be_len(16, v);
        lemma_be_roundtrip(16, v);
        assert((self.enc(t) + suffix).take(16) =~= be(16, v));
    }
}

//@lemma C08
impl TruncLaw for u128 {
    proof fn truncated(&self, t: Tbl, k: int) {
        lemma_be_len(16, self.gv() as nat);
    }
}

//@lemma C01 C07 C08 C04
impl CodecLaws for i128 {
    proof fn tbl_mono(&self, t: Tbl) { }
    proof fn roundtrip(&self, t: Tbl, suffix: Seq<u8>) {
        let v = self.gv() as nat;
        lemma_pow256();
        lemma_be_len(16, v);
        lemma_be_roundtrip(16, v);
        assert((self.enc(t) + suffix).take(16) =~= be(16, v));
    }
}

//@lemma C08
impl TruncLaw for i128 {
    proof fn truncated(&self, t: Tbl, k: int) {
        lemma_be_len(16, self.gv() as nat);
    }
}

//@lemma C01 C07 C08 C04
impl CodecLaws for f32 {
    proof fn tbl_mono(&self, t: Tbl) { }
    proof fn roundtrip(&self, t: Tbl, suffix: Seq<u8>) {
        let v = self.gv() as nat;
        lemma_pow256();
        lemma_be_len(4, v);
        lemma_be_roundtrip(4, v);
        assert((self.enc(t) + suffix).take(4) =~= be(4, v));
    }
}

//@lemma C08
impl TruncLaw for f32 {
    proof fn truncated(&self, t: Tbl, k: int) {
        lemma_be_len(4, self.gv() as nat);
    }
}

//@lemma C01 C07 C08 C04
impl CodecLaws for f64 {
    proof fn tbl_mono(&self, t: Tbl) { }
    proof fn roundtrip(&self, t: Tbl, suffix: Seq<u8>) {
        let v = self.gv() as nat;
        lemma_pow256();
        lemma_be_len(8, v);
        lemma_be_roundtrip(8, v);
        assert((self.enc(t) + suffix).take(8) =~= be(8, v));
    }
}

//@lemma C08
impl TruncLaw for f64 {
    proof fn truncated(&self, t: Tbl, k: int) {
        lemma_be_len(8, self.gv() as nat);
    }
}
