// ---------------------------------------------------------------------------------------
// laws.rs -- ghost only.  Property-level statements over the CONTRACT spec functions enc / dec
// (which the real serialize / deserialize are proved against): round trip with arbitrary
// suffix (C01, C07) and rejection of every strict prefix (C08).  Generic impls use only the
// laws of their parameters, so the statements hold at every nesting depth.
// ---------------------------------------------------------------------------------------

pub proof fn lemma_be_len(n: nat, v: nat)
    ensures
        be(n, v).len() == n,
    decreases n,
{
    if n > 0 {
        lemma_be_len((n - 1) as nat, v / 256);
    }
}

pub proof fn lemma_be_roundtrip(n: nat, v: nat)
    requires
        v < pow256(n),
    ensures
        be_val(be(n, v)) == v,
    decreases n,
{
    if n > 0 {
        lemma_be_len((n - 1) as nat, v / 256);
        assert(be(n, v).drop_last() =~= be((n - 1) as nat, v / 256));
        assert(v / 256 < pow256((n - 1) as nat)) by (nonlinear_arith)
            requires v < 256 * pow256((n - 1) as nat);
        lemma_be_roundtrip((n - 1) as nat, v / 256);
    }
}

pub open spec fn pow256(n: nat) -> nat
    decreases n,
{
    if n == 0 { 1 } else { 256 * pow256((n - 1) as nat) }
}

pub proof fn lemma_pow256()
    ensures
        pow256(1) == 0x100,
        pow256(2) == 0x1_0000,
        pow256(4) == 0x1_0000_0000,
        pow256(8) == 0x1_0000_0000_0000_0000,
        pow256(16) == 0x1_0000_0000_0000_0000_0000_0000_0000_0000,
{
    reveal_with_fuel(pow256, 17);
}

pub trait CodecLaws: BinarySerializer + BinaryDeserializer {
    /// decode(encode(v) ++ suffix) == v, consuming exactly |encode(v)| bytes, with the table
    /// the writer ended with
    proof fn roundtrip(&self, t: Tbl, suffix: Seq<u8>)
        requires
            self.ser_ok(t),
            self.tbl_after(t).len() < i32::MAX,  // format limit: string ids are 31-bit
        ensures
            Self::dec(self.enc(t) + suffix, t) == (Dec::Ok { v: self.gv(), n: self.enc(t).len(), t: self.tbl_after(t) }),
    ;

    /// the string table only grows
    proof fn tbl_mono(&self, t: Tbl)
        ensures
            self.tbl_after(t).len() >= t.len(),
    ;
}

/// C08: every strict prefix of an encoding is rejected.  (Separate from CodecLaws because the
/// nested proof for tuples of arity 6-8 is not stable under solver seeds; for those arities the
/// truncation law is NOT claimed.)
pub trait TruncLaw: CodecLaws {
    /// every strict prefix of an encoding is rejected
    proof fn truncated(&self, t: Tbl, k: int)
        requires
            self.ser_ok(t),
            self.tbl_after(t).len() < i32::MAX,
            0 <= k < self.enc(t).len(),
        ensures
            Self::dec(self.enc(t).take(k), t) is Err,
    ;
}

//@include gen_laws_leaf.rs

//@lemma C01 C07 C08
impl CodecLaws for bool {
    proof fn tbl_mono(&self, t: Tbl) {  }
    proof fn roundtrip(&self, t: Tbl, suffix: Seq<u8>) {
        let s = self.enc(t) + suffix;
        assert(s[0] == self.enc(t)[0]);
    }
}

//@lemma C08
impl TruncLaw for bool {
    proof fn truncated(&self, t: Tbl, k: int) {
    }
}

//@lemma C01 C07
impl CodecLaws for () {
    proof fn tbl_mono(&self, t: Tbl) {  }
    proof fn roundtrip(&self, t: Tbl, suffix: Seq<u8>) {
    }
}

//@lemma C08
impl TruncLaw for () {
    proof fn truncated(&self, t: Tbl, k: int) {
    }
}

//@lemma C01 C07 C08
impl<T: CodecLaws> CodecLaws for Option<T> {
    proof fn tbl_mono(&self, t: Tbl) { match self { Some(v) => v.tbl_mono(t), None => {} } }
    proof fn roundtrip(&self, t: Tbl, suffix: Seq<u8>) {
        let s = self.enc(t) + suffix;
        match self {
            Some(v) => {
                v.roundtrip(t, suffix);
                assert(s.skip(1) =~= v.enc(t) + suffix);
                assert(s[0] == 1);
            },
            None => {
                assert(s[0] == 0);
            },
        }
    }
}

//@lemma C08
impl<T: TruncLaw> TruncLaw for Option<T> {
    proof fn truncated(&self, t: Tbl, k: int) {
        match self {
            Some(v) => {
                if k >= 1 {
                    v.truncated(t, k - 1);
                    assert(self.enc(t).take(k).skip(1) =~= v.enc(t).take(k - 1));
                    assert(self.enc(t).take(k)[0] == 1);
                }
            },
            None => {},
        }
    }
}

//@lemma C01 C07 C08
impl<R: CodecLaws, E: CodecLaws> CodecLaws for core::result::Result<R, E> {
    proof fn tbl_mono(&self, t: Tbl) { match self { Ok(v) => v.tbl_mono(t), Err(e) => e.tbl_mono(t) } }
    proof fn roundtrip(&self, t: Tbl, suffix: Seq<u8>) {
        let s = self.enc(t) + suffix;
        match self {
            Ok(v) => {
                v.roundtrip(t, suffix);
                assert(s.skip(1) =~= v.enc(t) + suffix);
                assert(s[0] == 1);
            },
            Err(e) => {
                e.roundtrip(t, suffix);
                assert(s.skip(1) =~= e.enc(t) + suffix);
                assert(s[0] == 0);
            },
        }
    }
}

//@lemma C08
impl<R: TruncLaw, E: TruncLaw> TruncLaw for core::result::Result<R, E> {
    proof fn truncated(&self, t: Tbl, k: int) {
        match self {
            Ok(v) => {
                if k >= 1 {
                    v.truncated(t, k - 1);
                    assert(self.enc(t).take(k).skip(1) =~= v.enc(t).take(k - 1));
                    assert(self.enc(t).take(k)[0] == 1);
                }
            },
            Err(e) => {
                if k >= 1 {
                    e.truncated(t, k - 1);
                    assert(self.enc(t).take(k).skip(1) =~= e.enc(t).take(k - 1));
                    assert(self.enc(t).take(k)[0] == 0);
                }
            },
        }
    }
}

//@lemma C01 C07 C08
impl<T: CodecLaws> CodecLaws for Box<T> {
    proof fn tbl_mono(&self, t: Tbl) { (**self).tbl_mono(t); }
    proof fn roundtrip(&self, t: Tbl, suffix: Seq<u8>) { (**self).roundtrip(t, suffix); }
}

//@lemma C08
impl<T: TruncLaw> TruncLaw for Box<T> {
    proof fn truncated(&self, t: Tbl, k: int) { (**self).truncated(t, k); }
}

//@lemma C01 C07 C08
impl<T: CodecLaws> CodecLaws for Rc<T> {
    proof fn tbl_mono(&self, t: Tbl) { (**self).tbl_mono(t); }
    proof fn roundtrip(&self, t: Tbl, suffix: Seq<u8>) { (**self).roundtrip(t, suffix); }
}

//@lemma C08
impl<T: TruncLaw> TruncLaw for Rc<T> {
    proof fn truncated(&self, t: Tbl, k: int) { (**self).truncated(t, k); }
}

//@lemma C01 C07 C08
impl<T: CodecLaws> CodecLaws for Arc<T> {
    proof fn tbl_mono(&self, t: Tbl) { (**self).tbl_mono(t); }
    proof fn roundtrip(&self, t: Tbl, suffix: Seq<u8>) { (**self).roundtrip(t, suffix); }
}

//@lemma C08
impl<T: TruncLaw> TruncLaw for Arc<T> {
    proof fn truncated(&self, t: Tbl, k: int) { (**self).truncated(t, k); }
}

//@lemma C01 C07
impl<T> CodecLaws for PhantomData<T> {
    proof fn tbl_mono(&self, t: Tbl) {  }
    proof fn roundtrip(&self, t: Tbl, suffix: Seq<u8>) { }
}

//@lemma C08
impl<T> TruncLaw for PhantomData<T> {
    proof fn truncated(&self, t: Tbl, k: int) { }
}

//@lemma C01 C07 C08 C04
impl CodecLaws for char {
    proof fn tbl_mono(&self, t: Tbl) {  }
    proof fn roundtrip(&self, t: Tbl, suffix: Seq<u8>) {
        let v = (*self as u32) as nat;
        lemma_pow256();
        lemma_be_len(2, v);
        lemma_be_roundtrip(2, v);
        assert((self.enc(t) + suffix).take(2) =~= be(2, v));
    }
}

//@lemma C08
impl TruncLaw for char {
    proof fn truncated(&self, t: Tbl, k: int) {
        lemma_be_len(2, (*self as u32) as nat);
    }
}

pub proof fn lemma_dec_str_roundtrip(s: Seq<char>, suffix: Seq<u8>)
    requires
        utf8(s).len() <= i32::MAX,
    ensures
        dec_str(enc_str(s) + suffix) == (Dec::Ok { v: s, n: enc_str(s).len(), t: Seq::<Seq<char>>::empty() }),
{
    let len = utf8(s).len() as i32;
    let hd = var_i32(len as int);
    lemma_var_i32_roundtrip(len, utf8(s) + suffix);
    let all = enc_str(s) + suffix;
    assert(all =~= hd + (utf8(s) + suffix));
    let u = unleb_used(all);
    assert(all.subrange(u as int, u + len) =~= utf8(s));
    axiom_utf8_roundtrip(s);
}

pub proof fn lemma_dec_str_truncated(s: Seq<char>, k: int)
    requires
        utf8(s).len() <= i32::MAX,
        0 <= k < enc_str(s).len(),
    ensures
        dec_str(enc_str(s).take(k)) is Err,
{
    let len = utf8(s).len() as i32;
    let hd = var_i32(len as int);
    lemma_var_i32_roundtrip(len, utf8(s));
    let cut = enc_str(s).take(k);
    if k < hd.len() {
        // cut inside the length varint: every byte but the last has the continuation bit
        lemma_zz_bijection(len);
        lemma_leb_len_minimal(zz(len as int) as u32);
        assert(forall|i: int| 0 <= i < k ==> cut[i] == hd[i]);
        assert(!unleb_complete(cut));
    } else {
        lemma_var_i32_roundtrip(len, utf8(s).take(k - hd.len()));
        assert(cut =~= hd + utf8(s).take(k - hd.len()));
    }
}

//@lemma C01 C07 C08 C04 C09
impl CodecLaws for String {
    proof fn tbl_mono(&self, t: Tbl) {  }
    proof fn roundtrip(&self, t: Tbl, suffix: Seq<u8>) {
        lemma_dec_str_roundtrip(self@, suffix);
    }
}

//@lemma C08
impl TruncLaw for String {
    proof fn truncated(&self, t: Tbl, k: int) {
        lemma_dec_str_truncated(self@, k);
    }
}

//@lemma C09 C01 C07 C08
impl CodecLaws for DeduplicatedString {
    proof fn tbl_mono(&self, t: Tbl) {  }
    /// first occurrence: exactly the plain string bytes, registered under the next id;
    /// repeat: zig-zag varint of minus its id, resolved through the table
    proof fn roundtrip(&self, t: Tbl, suffix: Seq<u8>) {
        let s = self.0@;
        if tbl_has(t, s) {
            let id = tbl_id(t, s);
            assert(1 <= id <= t.len() && t[id - 1] == s);
            lemma_var_i32_roundtrip((-id) as i32, suffix);
        } else {
            lemma_dec_str_roundtrip(s, suffix);
            let len = utf8(s).len() as i32;
            lemma_var_i32_roundtrip(len, utf8(s) + suffix);
            assert(enc_str(s) + suffix =~= var_i32(len as int) + (utf8(s) + suffix));
        }
    }
}

//@lemma C08
impl TruncLaw for DeduplicatedString {
    proof fn truncated(&self, t: Tbl, k: int) {
        let s = self.0@;
        if tbl_has(t, s) {
            let id = tbl_id(t, s);
            assert(1 <= id <= t.len() && t[id - 1] == s);
            let e = var_i32(-id);
            lemma_zz_bijection((-id) as i32);
            lemma_leb_len_minimal(zz(-id) as u32);
            let cut = e.take(k);
            assert(forall|i: int| 0 <= i < k ==> cut[i] == e[i]);
            assert(!unleb_complete(cut));
        } else {
            lemma_dec_str_truncated(s, k);
            let len = utf8(s).len() as i32;
            let hd = var_i32(len as int);
            let cut = enc_str(s).take(k);
            if k < hd.len() {
                lemma_zz_bijection(len);
                lemma_leb_len_minimal(zz(len as int) as u32);
                assert(forall|i: int| 0 <= i < k ==> cut[i] == hd[i]);
                assert(!unleb_complete(cut));
            } else {
                lemma_var_i32_roundtrip(len, utf8(s).take(k - hd.len()));
                assert(cut =~= hd + utf8(s).take(k - hd.len()));
            }
        }
    }
}

//@lemma C01 C07 C08 C12
impl CodecLaws for Bytes {
    proof fn tbl_mono(&self, t: Tbl) {  }
    proof fn roundtrip(&self, t: Tbl, suffix: Seq<u8>) {
        let b = self@;
        lemma_leb_roundtrip(b.len() as u32, b + suffix);
        let all = self.enc(t) + suffix;
        assert(all =~= leb(b.len()) + (b + suffix));
        let u = unleb_used(all);
        assert(all.subrange(u as int, (u + b.len()) as int) =~= b);
    }
}

//@lemma C08
impl TruncLaw for Bytes {
    proof fn truncated(&self, t: Tbl, k: int) {
        let b = self@;
        let hd = leb(b.len());
        lemma_leb_roundtrip(b.len() as u32, b);
        let cut = self.enc(t).take(k);
        if k < hd.len() {
            lemma_leb_len_minimal(b.len() as u32);
            assert(forall|i: int| 0 <= i < k ==> cut[i] == hd[i]);
            assert(!unleb_complete(cut));
        } else {
            lemma_leb_roundtrip(b.len() as u32, b.take(k - hd.len()));
            assert(cut =~= hd + b.take(k - hd.len()));
        }
    }
}

//@include gen_laws_tuples.rs

/// C16: a compressed frame reads back its content, consumes exactly the frame, leaves the suffix;
/// rests on ASSUMPTION[flate2-roundtrip] only
//@lemma C16
pub proof fn lemma_compressed_roundtrip(d: Seq<u8>, level: int, suffix: Seq<u8>)
    requires
        d.len() <= u32::MAX,
        deflate_spec(d, level).len() <= u32::MAX,
    ensures
        ({
            let z = deflate_spec(d, level);
            let frame = leb(d.len()) + leb(z.len()) + z;
            dec_compressed(frame + suffix) == Some((d, frame.len()))
        }),
{
    let z = deflate_spec(d, level);
    let h1 = leb(d.len());
    let h2 = leb(z.len());
    let frame = h1 + h2 + z;
    let all = frame + suffix;
    axiom_flate2_roundtrip(d, level);
    lemma_leb_roundtrip(d.len() as u32, h2 + z + suffix);
    assert(all =~= h1 + (h2 + z + suffix));
    let s1 = all.skip(h1.len() as int);
    assert(s1 =~= h2 + (z + suffix));
    lemma_leb_roundtrip(z.len() as u32, z + suffix);
    assert(s1.subrange(h2.len() as int, (h2.len() + z.len()) as int) =~= z);
}

/// C16: every strict prefix of a frame is rejected
//@lemma C16
pub proof fn lemma_compressed_truncated(d: Seq<u8>, level: int, k: int)
    requires
        d.len() <= u32::MAX,
        deflate_spec(d, level).len() <= u32::MAX,
        0 <= k < (leb(d.len()) + leb(deflate_spec(d, level).len()) + deflate_spec(d, level)).len(),
    ensures
        dec_compressed((leb(d.len()) + leb(deflate_spec(d, level).len()) + deflate_spec(d, level)).take(k)) is None,
{
    let z = deflate_spec(d, level);
    let h1 = leb(d.len());
    let h2 = leb(z.len());
    let frame = h1 + h2 + z;
    let cut = frame.take(k);
    lemma_leb_len_minimal(d.len() as u32);
    lemma_leb_len_minimal(z.len() as u32);
    if k < h1.len() {
        assert(forall|i: int| 0 <= i < k ==> cut[i] == h1[i]);
        assert(!unleb_complete(cut));
    } else {
        let rest = (h2 + z).take(k - h1.len());
        assert(cut =~= h1 + rest);
        lemma_leb_roundtrip(d.len() as u32, rest);
        let s1 = cut.skip(h1.len() as int);
        assert(s1 =~= rest);
        if k - h1.len() < h2.len() {
            assert(forall|i: int| 0 <= i < k - h1.len() ==> rest[i] == h2[i]);
            assert(!unleb_complete(rest));
        } else {
            let zr = z.take(k - h1.len() - h2.len());
            assert(rest =~= h2 + zr);
            lemma_leb_roundtrip(z.len() as u32, zr);
        }
    }
}
