#![allow(dead_code)]
// Catalogue of derive(BinaryCodec) declarations (DESIGN 5/C02): every shape x attribute the
// properties name.  Expanded with the real macro on every run; never compiled into anything else.
use desert::{BinaryCodec, DeduplicatedString};

#[derive(BinaryCodec)]
pub struct S0Plain {
    pub a: u8,
    pub b: u32,
    pub c: bool,
}

#[derive(BinaryCodec)]
pub struct S0Unit {}

#[derive(BinaryCodec)]
pub struct S0OptTransient {
    pub id: u32,
    #[transient(7u16)]
    pub cached: u16,
    pub label: Option<u8>,
    pub full: std::option::Option<u16>,
}

#[derive(BinaryCodec)]
pub struct S0Nested {
    pub head: S0Plain,
    pub tail: Option<Box<S0Plain>>,
}

#[derive(BinaryCodec)]
#[evolution(FieldAdded("z", 9u8), FieldMadeOptional("y"), FieldRemoved("gone"))]
pub struct S3Evolved {
    pub x: u32,
    pub y: Option<u16>,
    pub z: u8,
}

#[derive(BinaryCodec)]
#[evolution(FieldMadeOptional("t"), FieldMadeTransient("t"))]
pub struct S2OptThenTransient {
    pub k: u8,
    #[transient(None)]
    pub t: Option<u8>,
}

#[derive(BinaryCodec)]
pub enum E0Mixed {
    A,
    B(u8, u16),
    C { p: Option<u8>, q: u32 },
}

#[derive(BinaryCodec)]
#[sorted_constructors]
pub enum E0Sorted {
    Zeta,
    Alpha(u8),
    #[transient]
    Hidden,
    Mid { v: u16 },
}

#[derive(BinaryCodec)]
pub enum E1EvolvedCase {
    Plain(u8),
    #[evolution(FieldAdded("extra", 1u8))]
    Grown { base: u16, extra: u8 },
}

// the enum itself has evolution steps (D14): index and case live in chunk 0 of a chunked record
#[derive(BinaryCodec)]
#[evolution(FieldAdded("tag", 0u8))]
pub enum E2EvolvedEnum {
    One,
    Two(u16),
    #[evolution(FieldAdded("w", 3u8))]
    Three { v: u8, w: u8 },
}

#[derive(BinaryCodec)]
pub enum E0TransientField {
    Seg(u8, #[transient(0u8)] u8, u16),
    Named {
        #[transient(1u8)]
        a: u8,
        b: u8,
    },
    Last,
}

// known finding D12: removed-field names in the header are deduplicated strings written after
// the fields but positioned before them
#[derive(BinaryCodec)]
#[evolution(FieldAdded("s2", DeduplicatedString(String::new())), FieldRemoved("gone"))]
pub struct S2DedupRemoved {
    pub s1: DeduplicatedString,
    pub s2: DeduplicatedString,
}
