#!/bin/sh
# Build what the checks reuse: Kani codegen of the harness crate and the native replay binary.
# Offline; everything comes from /repo, /verif and the pre-installed toolchains.
cd "$(dirname "$0")"
export CARGO_NET_OFFLINE=true
mkdir -p build evidence replays
cp /repo/Cargo.lock kani/Cargo.lock 2>/dev/null
(cd kani && CARGO_TARGET_DIR=../build/kani-target cargo kani -Z stubbing --only-codegen >/dev/null 2>build-kani.log || true)
(cd kani && CARGO_TARGET_DIR=../build/replay-target cargo build --offline --bin replay --quiet 2>/dev/null || true)
(cd kani && CARGO_TARGET_DIR=../build/replay-target cargo build --offline --bin metaprobe --quiet 2>/dev/null || true)
verus --version >/dev/null 2>&1 || echo "verus missing"
exit 0
